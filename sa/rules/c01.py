"""C01 - fixed string behaves as a std::string bounded by N.  Structural clauses only (the equivalence over histories is
not decidable here): (enc) the three length encodings decode what they encode for every length 0..N incl. the aliased
terminator store, folded exactly; (len) no derived-length read after a growing publication / terminator clobber;
(defarg) defaulted position/count arguments equal std::basic_string's; (bound) iterator mutators accept exactly the
positions std::basic_string accepts; (selflen) a fixed string never re-derives its own length by scanning; (order) the
relational operators and compare_impl are the 3-way ordering; (window) search loops keep cursor + remaining invariant."""
import itertools
import re

from .. import clangjson as cj
from .. import ir
from .. import flow
from .. import ceval
from .. import fstring as fs
from .. import linear
from ..linear import Lin
from ..report import Report

INSTS = {
    "quick": [("P16", "char", 16, "xtl::buffer | xtl::store_size", "silent_error"), ("E16", "char", 16, "xtl::buffer", "silent_error"),
              ("P255", "char", 255, "xtl::buffer | xtl::store_size", "silent_error"), ("F256", "char", 256, "xtl::buffer | xtl::store_size", "silent_error"),
              ("P1", "char", 1, "xtl::buffer | xtl::store_size", "silent_error"), ("U300", "char16_t", 300, "xtl::buffer | xtl::store_size", "silent_error")],
    "thorough": [("P16", "char", 16, "xtl::buffer | xtl::store_size", "silent_error"), ("E16", "char", 16, "xtl::buffer", "silent_error"),
                 ("P255", "char", 255, "xtl::buffer | xtl::store_size", "silent_error"), ("F256", "char", 256, "xtl::buffer | xtl::store_size", "silent_error"),
                 ("P1", "char", 1, "xtl::buffer | xtl::store_size", "silent_error"), ("T16", "char", 16, "xtl::buffer | xtl::store_size", "throwing_error"),
                 ("W16", "wchar_t", 16, "xtl::buffer | xtl::store_size", "silent_error"), ("U300", "char16_t", 300, "xtl::buffer | xtl::store_size", "silent_error"),
                 ("F300", "char", 300, "xtl::buffer | xtl::store_size", "silent_error")],
}


# ---------------------------------------------------------------------------------------------------------------------
# C01.enc
def storage_of(S):
    """the storage class specialisation used by instantiation S (type of m_storage)"""
    d = S.d
    for c in ir.kids(S.cls):
        if c.get("kind") == "FieldDecl" and c.get("name") == "m_storage":
            q = ir.qtype(c)
            dq = ((c.get("type") or {}).get("desugaredQualType") or q).replace(" ", "")
            for n in d.walk():
                if n.get("kind") == "ClassTemplateSpecializationDecl" and n.get("name") in ("fixed_small_string_storage_impl", "fixed_string_storage_impl", "fixed_string_external_storage_impl") \
                        and len(ir.kids(n)) > 4:
                    ta = " ".join(ir.template_args(n))
                    if q.replace(" ", "").endswith(("<" + ta + ">").replace(" ", "")) and (n.get("name") in dq or not any(
                            k_ in dq for k_ in ("fixed_small_string_storage_impl", "fixed_string_storage_impl", "fixed_string_external_storage_impl"))):
                        return n
    return None


def rule_enc(rep, S, cap):
    R = "C01.enc"
    d = S.d
    st = storage_of(S)
    if st is None:
        rep.inconclusive(R, S.tag, "storage class", detail="storage specialisation of m_storage not found")
        return
    kind = st.get("name")
    lab = "%s [%s]" % (kind, S.tag)
    fns = {f.get("name"): f for f in ir.kids(st) if f.get("kind") in ir.FUNC_KINDS and ir.has_body(f)}
    if not {"size", "set_size", "adjust_size"} <= set(fns):
        rep.inconclusive(R, lab, "members", detail="size/set_size/adjust_size not all instantiated: %s" % sorted(fns))
        return

    def stores(fn, env, mem, members):
        """apply the stores of a straight-line body; returns list of (array|field, index, value)"""
        out = []
        b = ir.body(fn)
        for s in ir.kids(b):
            s0 = s
            if s.get("kind") in ("DeclStmt", "NullStmt"):
                for v in ir.kids(s):
                    if v.get("kind") == "VarDecl" and ir.ekids(v):
                        ctx = ceval.Ctx(d, env, members)
                        ctx.arrays = {"m_buffer": mem}
                        env[v.get("id")] = ceval.conv(ceval.ev(ir.ekids(v)[-1], ctx), ir.qtype(v))
                continue
            n = ir.strip(s)
            if n.get("kind") == "CallExpr" or n.get("kind") == "CXXMemberCallExpr":
                nm = fs.this_member_call(n) if n.get("kind") == "CXXMemberCallExpr" else (ir.strip(ir.ekids(n)[0]).get("referencedDecl") or {}).get("name")
                if nm in ("__assert_fail",):
                    continue
                if nm == "set_size" and n.get("kind") == "CXXMemberCallExpr":
                    ctx = ceval.Ctx(d, env, members)
                    ctx.arrays = {"m_buffer": mem}
                    a = ceval.ev(ir.ekids(n)[1], ctx)
                    p = ir.params(fns["set_size"])[0]
                    out += stores(fns["set_size"], {p.get("id"): ceval.conv(a, ir.qtype(p))}, mem, members)
                    continue
                raise ceval.Unknown("call to %s in a storage primitive" % nm)
            if n.get("kind") == "CXXStaticCastExpr":
                continue            # assert(...) under NDEBUG
            if n.get("kind") == "ConditionalOperator":
                # assert(...) expansion: the condition is folded for this length; an assertion that fails for a valid length stops the program
                # in every build without NDEBUG
                c_, a_, b_ = ir.ekids(n)
                fails = lambda x: any(y.get("kind") == "CallExpr" and (ir.strip(ir.ekids(y)[0]).get("referencedDecl") or {}).get("name") in ("__assert_fail", "abort", "terminate")
                                      for y in ir.walk_expr(x))
                if fails(a_) or fails(b_):
                    ctx = ceval.Ctx(d, env, members)
                    ctx.arrays = {"m_buffer": mem}
                    taken = a_ if ceval.ev(c_, ctx) else b_
                    if fails(taken):
                        raise ceval.UB("the assertion `%s` fails for this length (a build without NDEBUG stops here)" % ir.show(ir.sx(c_))[:60])
                continue
            if n.get("kind") in ("BinaryOperator", "CompoundAssignOperator") and n.get("opcode") in ("=", "+=", "-="):
                lhs, rhs = ir.ekids(n)
                ctx = ceval.Ctx(d, env, members)
                ctx.arrays = {"m_buffer": mem}
                val = ceval.ev(rhs, ctx)
                l = lhs
                while l.get("kind") in ("ParenExpr", "ImplicitCastExpr") and ir.ekids(l):
                    l = ir.ekids(l)[0]
                if l.get("kind") == "ArraySubscriptExpr":
                    base, idxn = ir.ekids(l)
                    idx = ceval.ev(idxn, ctx)
                    v = ceval.conv(val, ir.qtype(l))
                    mem[idx] = v
                    out.append(("m_buffer", idx, v))
                    continue
                if l.get("kind") == "MemberExpr" and l.get("name") == "m_size":
                    cur = members.get("m_size", 0)
                    v = val if n.get("opcode") == "=" else (cur + val if n.get("opcode") == "+=" else cur - val)
                    members["m_size"] = ceval.conv(v, "unsigned long")
                    out.append(("m_size", None, members["m_size"]))
                    continue
                raise ceval.Unknown("store to %s" % l.get("kind"))
            if n.get("kind") in ("TypeAliasDecl", "StaticAssertDecl"):
                continue
            raise ceval.Unknown("statement %s in a storage primitive" % s0.get("kind"))
        return out

    def decode(mem, members):
        fn = fns["size"]
        ret, decls = ceval._single_return(fn)
        # size() may contain a type alias declaration first
        if ret is None:
            b = ir.body(fn)
            rets = [x for x in ir.kids(b) if x.get("kind") == "ReturnStmt"]
            others = [x for x in ir.kids(b) if x.get("kind") not in ("ReturnStmt", "DeclStmt")]
            if len(rets) != 1 or others:
                raise ceval.Unknown("size() is not a single return")
            ret = rets[0]
        ctx = ceval.Ctx(d, {}, members)
        ctx.arrays = {"m_buffer": mem}
        return ceval.ev(ir.ekids(ret)[0], ctx)

    if kind == "fixed_string_external_storage_impl":
        # strlen layout: set_size(sz) writes exactly one NUL at sz; size() is strlen of the buffer
        try:
            p = ir.params(fns["set_size"])[0]
            bad = None
            for sz in range(0, cap + 1):
                mem = {}
                w = stores(fns["set_size"], {p.get("id"): sz}, mem, {})
                if w != [("m_buffer", sz, 0)]:
                    bad = (sz, w)
                    break
            szt = ir.sx(ir.ekids([x for x in ir.walk_expr(fns["size"]) if x.get("kind") == "ReturnStmt"][0])[0])
            ok_size = szt[0] == "call" and "strlen" in ir.show(szt[1]) or (szt[0] == "call" and "length" in ir.show(szt[1]))
            if bad:
                rep.violates(R, lab, "set_size writes the terminator", where=d.where(fns["set_size"]), scenario="sz=%d" % bad[0], detail="stores %s, expected a single NUL at index sz" % (bad[1],))
            else:
                rep.holds(R, lab, "set_size writes the terminator", where=d.where(fns["set_size"]), detail="NUL at sz for sz in 0..%d" % cap)
            # strlen / traits::length of the buffer is the recognised form; a hand-written scan is not evaluated here: not recognised is not wrong
            (rep.holds if ok_size else rep.inconclusive)(R, lab, "size() is the distance to the first NUL", where=d.where(fns["size"]),
                                                          **({} if ok_size else {"detail": "returns `%s`: a hand-written scan of the buffer is not evaluated" % ir.show(szt)}))
            # adjust_size(val) writes NUL at size()+val
            at = [ir.sx(n) for n in ir.walk_expr(fns["adjust_size"]) if n.get("kind") == "BinaryOperator" and n.get("opcode") == "="]
            pv = ir.params(fns["adjust_size"])[0].get("name")
            ok_adj = len(at) == 1 and at[0][2][0] == "index" and at[0][3] in (("lit", "0"), ("lit", 0)) or (len(at) == 1 and ir.show(at[0][3]) in ("0", "'\\0'"))
            idx_t = at[0][2][2] if at and at[0][2][0] == "index" else None
            ok_idx = idx_t is not None and {str(x) for x in ir.subterms(idx_t) if x[0] in ("ref", "call")} >= {str(("ref", pv))} and any(s[0] == "call" and s[1] == ("mem", ("this",), "size") for s in ir.subterms(idx_t)) \
                and idx_t[0] == "bin" and idx_t[1] == "+"
            if not (ok_adj and ok_idx):
                # the same through set_size: set_size(size() + val), possibly through a local
                from .. import fstring as fs_
                loc_ = fs_.local_sx(fns["adjust_size"])
                for c_ in ir.walk_expr(fns["adjust_size"]):
                    tc = ir.sx(c_) if c_.get("kind") in ("CXXMemberCallExpr", "CallExpr") else None
                    if tc and tc[0] == "call" and len(tc) == 3 and (tc[1] == ("mem", ("this",), "set_size") or tc[1] == ("ref", "set_size")):
                        arg_ = fs_.subst_locals(tc[2], loc_)
                        subs_ = [x for x in ir.subterms(arg_) if isinstance(x, tuple)]
                        has_size = any(x[0] == "call" and len(x) == 2 and x[1] in (("mem", ("this",), "size"), ("ref", "size")) for x in subs_)
                        has_val = any(x == ("ref", pv) for x in subs_)
                        has_plus = any(x[0] == "bin" and x[1] == "+" for x in subs_)
                        if has_size and has_val and has_plus and not at:
                            ok_adj = ok_idx = True
            if ok_adj and ok_idx:
                rep.holds(R, lab, "adjust_size moves the terminator by val", where=d.where(fns["adjust_size"]))
            else:
                # not recognised is not wrong: another way of writing it is left to the reader
                rep.inconclusive(R, lab, "adjust_size moves the terminator by val", where=d.where(fns["adjust_size"]), detail="stores `%s`" % [ir.show(a) for a in at])
        except (ceval.Unknown, ceval.UB) as e:
            rep.inconclusive(R, lab, "encoding", where=d.where(st), detail=str(e))
        return
    # packed and size-field layouts: exhaustive over every length
    try:
        p = ir.params(fns["set_size"])[0]
        bad = None
        for sz in range(0, cap + 1):
            mem, members = {}, {}
            w = stores(fns["set_size"], {p.get("id"): sz}, mem, members)
            if mem.get(sz) != 0:
                bad = (sz, "set_size(%d) leaves data()[%d] = %s, expected the NUL terminator" % (sz, sz, mem.get(sz)))
                break
            got = decode(mem, members)
            if got != sz:
                bad = (sz, "after set_size(%d), size() decodes %d (stores: %s)" % (sz, got, w))
                break
            # adjust_size(-1), adjust_size(+1) from here
            for delta in (-1, 1):
                if not (0 <= sz + delta <= cap):
                    continue
                mem2, members2 = dict(mem), dict(members)
                pa = ir.params(fns["adjust_size"])[0]
                stores(fns["adjust_size"], {pa.get("id"): delta}, mem2, members2)
                g2 = decode(mem2, members2)
                if g2 != sz + delta or mem2.get(sz + delta) != 0:
                    bad = (sz, "adjust_size(%+d) from length %d gives size() = %s and data()[%d] = %s" % (delta, sz, g2, sz + delta, mem2.get(sz + delta)))
                    break
            if bad:
                break
        if bad:
            rep.violates(R, lab, "size() decodes what set_size/adjust_size encode, terminator in place", where=d.where(fns["set_size"]), scenario="length %d of capacity %d" % (bad[0], cap), detail=bad[1])
        else:
            rep.holds(R, lab, "size() decodes what set_size/adjust_size encode, terminator in place", where=d.where(fns["set_size"]), detail="every length 0..%d folded" % cap)
    except ceval.UB as e:
        rep.violates(R, lab, "size() decodes what set_size/adjust_size encode, terminator in place", where=d.where(fns["set_size"]), detail="undefined behaviour: %s" % e)
    except ceval.Unknown as e:
        rep.inconclusive(R, lab, "encoding", where=d.where(st), detail=str(e))
    # constructors: default -> length 0; (ptr, size) of the packed layout encodes like set_size
    for c in [f for f in ir.kids(st) if f.get("kind") == "CXXConstructorDecl" and ir.has_body(f) and not f.get("isImplicit")]:
        ps = ir.params(c)
        try:
            if len(ps) == 0:
                mem, members = {}, {}
                stores(c, {}, mem, members)
                inits = [x for x in ir.kids(c) if x.get("kind") == "CXXCtorInitializer"]
                if kind == "fixed_string_storage_impl" and not mem and "m_size" not in members:
                    continue        # defaulted: value-initialised by the owner (m_storage())
                ok = decode(mem, members) == 0 and mem.get(0) == 0
                (rep.holds if ok else rep.violates)(R, lab, "default construction is the empty string", where=d.where(c), **({} if ok else {"detail": "size() = %s, data()[0] = %s" % (decode(mem, members), mem.get(0))}))
        except (ceval.Unknown, ceval.UB) as e:
            rep.inconclusive(R, lab, "default construction", where=d.where(c), detail=str(e))


# ---------------------------------------------------------------------------------------------------------------------
# C01.len
def rule_enc_as(rep, rid, statement):
    """the encoder/decoder agreement of every storage layout, decided under the id of another property of which it is a necessary condition"""
    from ..report import Renamed
    rep.rule(rid, statement)
    insts = INSTS["quick"]
    d = cj.dump(fs.driver(insts), "xtl::")
    rep.cmd(d.cmd)
    strs = fs.gather(d, insts)
    caps = {i[0]: i[2] for i in insts}
    if set(strs) != set(caps):
        rep.inconclusive(rid, "storage layouts", "instantiations", detail="found %s, expected %s" % (sorted(strs), sorted(caps)))
        return
    r2 = Renamed(rep, {"C01.enc": rid})
    for tag in sorted(strs):
        rule_enc(r2, strs[tag], caps[tag])


def rule_empty(rep, S):
    """empty() is `size() == 0` in one of its spellings; a test of the first character against NUL is not: a counted string may start with a NUL"""
    from .. import norm
    d = S.d
    for fn in S.fns:
        if fn.get("name") != "empty" or ir.params(fn):
            continue
        rets = [x for x in ir.walk_expr(ir.body(fn)) if x.get("kind") == "ReturnStmt" and ir.ekids(x)]
        lab = "%s::empty()" % S.tag
        if len(rets) != 1:
            rep.inconclusive("C01.len", lab, "empty() is size() == 0", where=d.where(fn), detail="%d return statements" % len(rets))
            continue
        t = norm.deep_uncast(ir.sx(ir.ekids(rets[0])[0]))
        txt = ir.show(t)
        is_size = lambda x: x[0] == "call" and len(x) == 2 and ((x[1][0] == "mem" and x[1][2] in ("size", "length")) or x[1] in (("ref", "size"), ("ref", "length")))
        is_pos = lambda x, names: x[0] == "call" and len(x) == 2 and ((x[1][0] == "mem" and x[1][2] in names) or (x[1][0] == "ref" and x[1][1] in names))
        ok = False
        if t[0] == "bin" and t[1] == "==":
            a, b = norm.deep_uncast(t[2]), norm.deep_uncast(t[3])
            ok = (is_size(a) and norm.int_of(b) == 0) or (is_size(b) and norm.int_of(a) == 0) or \
                (is_pos(a, ("begin", "cbegin")) and is_pos(b, ("end", "cend"))) or (is_pos(b, ("begin", "cbegin")) and is_pos(a, ("end", "cend")))
        elif t[0] == "un" and t[1] == "!" and is_size(norm.deep_uncast(t[2])):
            ok = True
        reads_buffer = any(isinstance(x, tuple) and x and ((x[0] == "index") or (x[0] == "un" and x[1] == "*") or
                                                             (x[0] == "call" and len(x) >= 2 and isinstance(x[1], tuple) and x[1][0] in ("mem", "ref") and
                                                              str(x[1][-1]) in ("front", "data", "c_str", "operator[]", "at"))) for x in ir.subterms(t))
        if ok:
            rep.holds("C01.len", lab, "empty() is size() == 0", where=d.where(fn), detail=txt[:60])
        elif reads_buffer:
            rep.violates("C01.len", lab, "empty() is size() == 0", where=d.where(fn),
                         detail="returns `%s`: it looks at a character of the buffer instead of the length - a counted string whose first character is NUL "
                                "(constructed from (\"\\0ab\", 3), insert(0, 1, '\\0'), resize(n, '\\0')) has size() > 0 and reports empty" % txt[:60])
        else:
            rep.inconclusive("C01.len", lab, "empty() is size() == 0", where=d.where(fn), detail="returns `%s`" % txt[:60])


def rule_len(rep, S, R="C01.len"):
    d = S.d
    for fn in S.fns:
        if fn.get("isImplicit") or fn.get("explicitlyDefaulted") or re.search(r"\)\s*const", ir.qtype(fn)):
            continue
        lab = "%s::%s" % (S.tag, S.label(fn))
        bl = fs.buffer_locals(fn)
        paths = flow.function_paths(fn, with_ctor_inits=False)
        bad = None
        npub = 0
        for path in paths:
            grown = None          # node of a publication that may grow the string, with the gap not yet known to be filled
            clobber = None
            for st in path:
                if st[0] != "ev":
                    continue
                n = st[1]
                sc = fs.storage_call(n)
                tm = fs.this_member_call(n)
                if sc == "set_size":
                    npub += 1
                    a = ir.sx(ir.ekids(n)[1])
                    clobber = None
                    grown = None if a == ("lit", "0") else n
                    continue
                if sc == "adjust_size":
                    npub += 1
                    a = ir.sx(ir.ekids(n)[1])
                    neg = a[0] == "un" and a[1] == "-" or (a[0] == "lit" and str(a[1]).startswith("-"))
                    if clobber is not None and bad is None:
                        bad = (n, "adjust_size() re-derives the length (strlen layout) after `%s` overwrote the terminator" % d.text(clobber)[:50])
                    grown = None if neg else n
                    continue
                derived = (tm in fs.DERIVED_LEN) or sc == "size"
                if derived:
                    if grown is not None and bad is None:
                        bad = (n, "`%s` is read after `%s` published a possibly larger length: on the strlen layout the old terminator is still in place, so the "
                                  "derived length is stale (and the following write lands at the wrong place)" % (d.text(n)[:30], d.text(grown)[:60].replace("\n", " ")))
                    if clobber is not None and bad is None:
                        bad = (n, "`%s` is read after `%s` overwrote the terminator" % (d.text(n)[:30], d.text(clobber)[:50]))
                    continue
                w = fs.write_event(n, fn, bl)
                if w is not None and w[0] == "store":
                    # data()[size()] = x / *end() = x  : terminator clobber
                    t = w[1]
                    idx = t[2] if t[0] == "index" else None
                    if (idx is not None and any(s == ("call", ("mem", ("this",), "size")) for s in ir.subterms(idx))) or \
                            (t[0] == "un" and any(s[0] == "call" and s[1] in (("mem", ("this",), "end"),) for s in ir.subterms(t))):
                        if ir.sx(ir.ekids(n)[1]) not in (("lit", "0"), ("lit", 0)):
                            clobber = n
        if bad:
            rep.violates(R, lab, "length is not re-derived between publication and fill", where=d.where(bad[0]), detail=bad[1])
        else:
            rep.holds(R, lab, "length is not re-derived between publication and fill", where=d.where(fn), detail="%d paths" % len(paths), nontrivial=npub > 0)


# ---------------------------------------------------------------------------------------------------------------------
# C01.defarg
def kind_of(q):
    q = fs.simple_type(q).replace("const ", "").replace("&", "").strip()
    if q in ("self_type", "xbasic_fixed_string<CT, N, ST, EP, TR>", "string_type"):
        return "str"
    if q in ("const_pointer", "pointer"):
        return "ptr"
    if q == "value_type":
        return "ch"
    if q == "size_type":
        return "n"
    if "iterator" in q or q == "InputIt":
        return "it"
    if q == "initializer_type":
        return "il"
    return q


def expected_defaults(name, kinds):
    """[basic.string]: trailing defaults by member name and parameter kinds -> list of None | 0 | 'npos' per parameter"""
    out = [None] * len(kinds)
    k = tuple(kinds)
    if name in ("find", "find_first_of", "find_first_not_of") and len(k) == 2 and k[1] == "n" and k[0] in ("str", "ptr", "ch"):
        out[1] = 0
    if name in ("rfind", "find_last_of", "find_last_not_of") and len(k) == 2 and k[1] == "n" and k[0] in ("str", "ptr", "ch"):
        out[1] = "npos"
    if name == "substr" and k == ("n", "n"):
        out = [0, "npos"]
    if name == "copy" and k == ("ptr", "n", "n"):
        out[2] = 0
    if name == "erase" and k == ("n", "n"):
        out = [0, "npos"]
    if name in ("assign", "append", "xbasic_fixed_string") and k == ("str", "n", "n"):
        out[2] = "npos"
    if name == "insert" and k == ("n", "str", "n", "n"):
        out[3] = "npos"
    if name in ("compare", "replace") and k == ("n", "n", "str", "n", "n"):
        out[4] = "npos"
    return out


def rule_defarg(rep, d):
    R = "C01.defarg"
    cls = None
    for n in d.walk():
        if n.get("kind") == "ClassTemplateDecl" and n.get("name") == "xbasic_fixed_string":
            for c in ir.kids(n):
                if c.get("kind") == "CXXRecordDecl" and len(ir.kids(c)) > 20:
                    cls = c
    if cls is None:
        raise cj.AnalysisBroken("class template xbasic_fixed_string not found")
    n_decl = 0
    for m in ir.kids(cls):
        decls = [m] if m.get("kind") in ("CXXMethodDecl", "CXXConstructorDecl") else ([x for x in ir.kids(m) if x.get("kind") in ("CXXMethodDecl", "CXXConstructorDecl")][:1] if m.get("kind") == "FunctionTemplateDecl" else [])
        for f in decls:
            if f.get("isImplicit"):
                continue
            ps = ir.params(f)
            if not ps:
                continue
            name = (f.get("name") or "").split("<")[0]
            kinds = [kind_of(ir.wtype(p)) for p in ps]
            want = expected_defaults(name, kinds)
            got = []
            for p in ps:
                e = ir.ekids(p)
                if not e:
                    got.append(None)
                    continue
                t = ir.sx(e[-1])
                if t in (("lit", "0"), ("lit", 0)):
                    got.append(0)
                elif t == ("ref", "npos") or t == ("mem", ("this",), "npos"):
                    got.append("npos")
                else:
                    got.append(ir.show(t))
            n_decl += 1
            lab = "%s(%s)" % (name, ", ".join(kinds))
            if got == want:
                rep.holds(R, lab, "defaulted arguments", where=d.where(f), detail=str([w for w in want if w is not None]) if any(w is not None for w in want) else "none defaulted", nontrivial=any(w is not None for w in want))
            else:
                diffs = ["parameter `%s` defaults to %s, std::basic_string: %s" % (p.get("name"), "nothing" if g is None else g, "no default" if w is None else w)
                         for p, g, w in zip(ps, got, want) if g != w]
                rep.violates(R, lab, "defaulted arguments", where=d.where(f), detail="; ".join(diffs))
    if n_decl < 100:
        raise cj.AnalysisBroken("only %d member declarations with parameters found" % n_decl)


# ---------------------------------------------------------------------------------------------------------------------
# C01.bound
def eval_pos(t, env):
    """evaluate an sx term over small integer positions; None if unknown"""
    if t[0] == "cast":
        return eval_pos(t[3], env)
    if t[0] == "ref":
        return env.get(t[1])
    if t[0] == "call" and t[1][0] == "mem" and t[1][1] == ("this",) and len(t) == 2:
        return env.get(t[1][2] + "()")
    if t[0] == "lit":
        try:
            return int(str(t[1]))
        except ValueError:
            return None
    if t[0] == "un" and t[1] == "!":
        v = eval_pos(t[2], env)
        return None if v is None else (not v)
    if t[0] == "un" and t[1] == "-":
        v = eval_pos(t[2], env)
        return None if v is None else -v
    if t[0] == "cond":
        c = eval_pos(t[1], env)
        return None if c is None else eval_pos(t[2] if c else t[3], env)
    if t[0] == "call" and t[1] in (("ref", "min"), ("ref", "max")) and len(t) == 4:
        a, b = eval_pos(t[2], env), eval_pos(t[3], env)
        return None if a is None or b is None else (min(a, b) if t[1][1] == "min" else max(a, b))
    if t[0] == "bin":
        if t[1] in ("&&", "||"):
            a = eval_pos(t[2], env)
            if a is None:
                return None
            if t[1] == "&&" and not a:
                return False
            if t[1] == "||" and a:
                return True
            return eval_pos(t[3], env)
        a, b = eval_pos(t[2], env), eval_pos(t[3], env)
        if a is None or b is None:
            return None
        return {"<": a < b, "<=": a <= b, ">": a > b, ">=": a >= b, "==": a == b, "!=": a != b, "+": a + b, "-": a - b}.get(t[1])
    return None


def rule_bound(rep, S):
    R = "C01.bound"
    d = S.d
    B, E = 0, 3
    for fn in S.fns:
        nm = fn.get("name")
        its = [p.get("name") for p in ir.params(fn) if "const_iterator" in ir.wtype(p)]
        if nm not in ("insert", "erase", "replace") or not its:
            continue
        ifs = [s for s in ir.kids(ir.body(fn)) if s.get("kind") == "IfStmt"]
        if not ifs:
            continue            # a delegating overload
        lab = "%s::%s" % (S.tag, S.label(fn))
        raw = [c for c in ifs[0].get("inner", []) if isinstance(c, dict) and c.get("kind")]
        cond = ir.sx(raw[0])
        # is the guarded branch the mutating one?
        def mutates(node):
            for x in ir.walk_expr(node):
                if fs.storage_call(x) in ("set_size", "adjust_size") or fs.this_member_call(x) in ("insert", "erase", "replace"):
                    return True
                if fs.this_member_call(x) is not None:
                    tg = fs.member_target(d, x)
                    if tg is not None and ir.has_body(tg) and not re.search(r"\)\s*const", ir.qtype(tg)) and tg.get("name") not in ("data", "begin", "end"):
                        return True      # a non-const helper of the class (e.g. an extracted open_gap/grow_by)
            return False
        then_mut = mutates(raw[1])
        else_mut = len(raw) > 2 and mutates(raw[2])
        if not then_mut and not else_mut and len(raw) == 2:
            # guard written as an early return: the mutation is what follows the if
            stmts_ = ir.kids(ir.body(fn))
            after = stmts_[stmts_.index(ifs[0]) + 1:] if ifs[0] in stmts_ else []
            returns_early = any(x.get("kind") == "ReturnStmt" for x in ir.walk_expr(raw[1]))
            if returns_early and any(mutates(x) for x in after):
                else_mut = True
        if then_mut == else_mut:
            rep.inconclusive(R, lab, "position guard", where=d.where(ifs[0]), detail="cannot tell which branch mutates")
            continue
        bad = None
        ncase = 0
        if len(its) == 1:
            cases = [({its[0]: p}, True) for p in range(B, E + 1)]            # insert(pos): every begin <= pos <= end is valid
        elif nm == "erase":
            cases = [({its[0]: f, its[1]: l}, True) for f in range(B, E) for l in range(f, E + 1)]     # begin <= first < end, first <= last
        else:
            cases = [({its[0]: f, its[1]: l}, True) for f in range(B, E + 1) for l in range(f, E + 1)]  # replace: begin <= first <= last <= end
        for env0, valid in cases:
            env = dict(env0)
            env.update({"cbegin()": B, "begin()": B, "cend()": E, "end()": E})
            # locals declared before the guard (b = cbegin(), ...) take their value in this scenario
            for st_ in ir.kids(ir.body(fn)):
                if st_ is ifs[0]:
                    break
                if st_.get("kind") == "DeclStmt":
                    for v_ in ir.kids(st_):
                        if v_.get("kind") == "VarDecl" and ir.ekids(v_) and v_.get("name") not in env:
                            val_ = eval_pos(ir.sx(ir.ekids(v_)[-1]), env)
                            if val_ is not None:
                                env[v_.get("name")] = val_
            v = eval_pos(cond, env)
            ncase += 1
            if v is None:
                bad = ("?", "guard `%s` not evaluable" % ir.show(cond))
                break
            takes_mut = v if then_mut else (not v)
            if valid and not takes_mut:
                pos = ", ".join("%s = %s" % (k, "begin()+%d" % vv if vv not in (B, E) else ("begin()" if vv == B else "end()")) for k, vv in env0.items())
                bad = (pos, "the valid position %s is rejected by `%s`: std::basic_string performs the operation there" % (pos, ir.show(cond)))
                break
        if bad and bad[0] == "?":
            rep.inconclusive(R, lab, "position guard", where=d.where(ifs[0]), detail=bad[1])
        elif bad:
            rep.violates(R, lab, "position guard", where=d.where(ifs[0]), scenario=bad[0], detail=bad[1])
        else:
            rep.holds(R, lab, "position guard", where=d.where(ifs[0]), detail="%d orderings of the iterator positions accepted" % ncase)


# ---------------------------------------------------------------------------------------------------------------------
# C01.selflen
def rule_selflen(rep, d, S):
    R = "C01.selflen"
    cands = list(S.fns)
    for f in ir.functions(d):
        if ir.is_template_pattern(d, f) or f in cands:
            continue
        if any("xbasic_fixed_string" in ir.qtype(p) for p in ir.params(f)) and ir.enclosing_class(d, f) is None:
            cands.append(f)
    n_sites = 0
    for fn in cands:
        lab = S.label(fn) if fn in S.fns else "%s(%s)" % (fn.get("name"), ", ".join(fs.simple_type(ir.wtype(p)) for p in ir.params(fn)))
        for n in ir.walk_expr(fn):
            k = n.get("kind")
            if k not in ("CXXConstructExpr", "CXXTemporaryObjectExpr", "CXXOperatorCallExpr", "CallExpr", "CXXMemberCallExpr"):
                continue
            args = ir.ekids(n) if k in ("CXXConstructExpr", "CXXTemporaryObjectExpr") else ir.ekids(n)[1:]
            args = [a for a in args if a.get("kind") != "CXXDefaultArgExpr"]
            own = []
            for a in args:
                s = ir.strip(a)
                if s.get("kind") == "CXXMemberCallExpr":
                    c = ir.strip(ir.ekids(s)[0])
                    if c.get("kind") == "MemberExpr" and c.get("name") in ("c_str", "data"):
                        b = ir.ekids(c)
                        bt = ir.qtype(b[0]) if b else "this"
                        if "xbasic_fixed_string" in bt or not b:
                            own.append((a, ir.sx(b[0]) if b else ("this",)))
            if not own and k == "CXXOperatorCallExpr" and ir.sx(n)[0] == "bin" and ir.sx(n)[1] == "<<":
                # a stream insertion of the string converted by its own conversion operator (which is a site of this rule itself)
                conv = [x for a in args for x in ir.walk_expr(a) if x.get("kind") == "CXXMemberCallExpr" and ir.ekids(x) and
                        ir.strip(ir.ekids(x)[0]).get("kind") == "MemberExpr" and (ir.strip(ir.ekids(x)[0]).get("name") or "").startswith("operator ") and
                        "basic_string" in ir.qtype(x) and ir.ekids(ir.strip(ir.ekids(x)[0])) and "xbasic_fixed_string" in ir.qtype(ir.ekids(ir.strip(ir.ekids(x)[0]))[0])]
                if conv:
                    n_sites += 1
                    rep.holds(R, lab, "`%s`" % d.text(n)[:60].replace("\n", " "), where=d.where(n), detail="inserted through the string's own conversion to std::basic_string")
                continue
            if not own:
                continue
            is_string_sink = (k in ("CXXConstructExpr", "CXXTemporaryObjectExpr") and "basic_string" in ir.qtype(n) and "xbasic_fixed_string" not in ir.qtype(n)) or \
                (k == "CXXOperatorCallExpr" and ir.sx(n)[0] == "bin" and ir.sx(n)[1] == "<<") or \
                (k == "CXXMemberCallExpr" and (ir.strip(ir.ekids(n)[0]).get("name") in ("assign", "append", "operator=", "operator+=") and "basic_string<" in ir.qtype(ir.ekids(ir.strip(ir.ekids(n)[0]))[0] if ir.ekids(ir.strip(ir.ekids(n)[0])) else {})))
            if not is_string_sink:
                continue
            n_sites += 1
            for a, obj in own:
                has_size = any(ir.sx(x)[0] == "call" and ir.sx(x)[1][0] == "mem" and ir.sx(x)[1][2] in ("size", "length") and ir.sx(x)[1][1] == obj for x in args if x is not a)
                cons = "`%s`" % d.text(n)[:60].replace("\n", " ")
                if has_size:
                    rep.holds(R, lab, cons, where=d.where(n), detail="the buffer is passed together with its own size()")
                else:
                    rep.violates(R, lab, cons, where=d.where(n),
                                 detail="the character buffer of a fixed string is handed to a std::string/stream without its size(): the length is re-derived by scanning for NUL, "
                                        "so contents after an embedded NUL are lost")
    if n_sites == 0:
        rep.inconclusive(R, "xbasic_fixed_string", "string/stream sinks", detail="no conversion to std::string / stream insertion found (anchor moved?)")


# ---------------------------------------------------------------------------------------------------------------------
# C01.order
def rule_order(rep, d, S):
    R = "C01.order"
    ops = {}
    for f in ir.functions(d):
        nm = f.get("name") or ""
        if nm in ("operator==", "operator!=", "operator<", "operator<=", "operator>", "operator>=") and not ir.is_template_pattern(d, f) and len(ir.params(f)) == 2 \
                and any("xbasic_fixed_string" in ir.qtype(p) for p in ir.params(f)) and ir.enclosing_class(d, f) is None:
            ops.setdefault(nm, []).append(f)

    def sig(f):
        return tuple("F" if "xbasic_fixed_string" in ir.qtype(p) else ("P" if "*" in ir.qtype(p) else "S") for p in ir.params(f))

    def evaluate(f, c, depth=0):
        """truth of operator f(lhs, rhs) when lhs ? rhs has 3-way sign c (-1, 0, 1); None if not evaluable"""
        if depth > 3:
            return None
        l, r = [p.get("name") for p in ir.params(f)]
        rets = [x for x in ir.walk_expr(ir.body(f)) if x.get("kind") == "ReturnStmt"]
        if len(rets) != 1:
            return None

        def ev(t):
            if t[0] == "cast":
                return ev(t[3])
            if t[0] == "lit":
                try:
                    return int(str(t[1]))
                except ValueError:
                    return {"true": True, "false": False}.get(t[1])
            if t[0] == "un" and t[1] == "!":
                v = ev(t[2])
                return None if v is None else (not v)
            if t[0] == "un" and t[1] == "-":
                v = ev(t[2])
                return None if v is None else -v
            if t[0] == "call" and t[1][0] == "mem" and t[1][2] == "compare" and len(t) == 3:
                a, b = t[1][1], t[2]
                while b[0] == "cast":
                    b = b[3]
                if b[0] == "call" and b[1][0] == "mem" and b[1][2] in ("c_str", "data") and len(b) == 2 and b[1][1] in (("ref", l), ("ref", r)) and \
                        sig(f)[(l, r).index(b[1][1][1])] == "S":
                    b = b[1][1]          # a std::string operand passed on as its C string (what the pointer overloads of the operators do too)
                if a == ("ref", l) and b == ("ref", r):
                    return c
                if a == ("ref", r) and b == ("ref", l):
                    return -c
                return None
            if t[0] == "bin" and t[1] in ("==", "!=", "<", "<=", ">", ">="):
                # comparison of a compare() result with a number, or a delegation to another relational operator
                a, b = t[2], t[3]
                conv = {}
                for side in ("a", "b"):
                    x = a if side == "a" else b
                    if x[0] == "call" and x[1][0] == "mem" and x[1][2] in ("c_str", "data") and x[1][1] in (("ref", l), ("ref", r)) and len(x) == 2:
                        conv[x[1][1][1]] = "P"       # std::string operand passed on as its C string
                        if side == "a":
                            a = x[1][1]
                        else:
                            b = x[1][1]
                if a in (("ref", l), ("ref", r)) and b in (("ref", l), ("ref", r)):
                    # delegation: find the operator with matching operand kinds
                    kinds = {l: sig(f)[0], r: sig(f)[1]}
                    kinds.update(conv)
                    want = (kinds[a[1]], kinds[b[1]])
                    for g in ops.get("operator" + t[1], []):
                        if sig(g) == want:
                            sub_c = c if (a, b) == (("ref", l), ("ref", r)) else (-c if (a, b) == (("ref", r), ("ref", l)) else 0)
                            return evaluate(g, sub_c, depth + 1)
                    return None
                x, y = ev(a), ev(b)
                if x is None or y is None or isinstance(x, bool) or isinstance(y, bool):
                    return None
                return {"==": x == y, "!=": x != y, "<": x < y, "<=": x <= y, ">": x > y, ">=": x >= y}[t[1]]
            if t[0] == "bin" and t[1] in ("&&", "||"):
                x, y = ev(t[2]), ev(t[3])
                if x is None or y is None:
                    return None
                return (x and y) if t[1] == "&&" else (x or y)
            return None
        return ev(ir.sx(ir.ekids(rets[0])[0]))

    n = 0
    for nm, fl in sorted(ops.items()):
        op = nm[len("operator"):]
        seen_sig = set()
        for f in fl:
            if sig(f) in seen_sig:
                continue        # one instantiation per overload is enough: the bodies do not depend on N / layout
            seen_sig.add(sig(f))
            n += 1
            lab = "%s(%s)" % (nm, ", ".join({"F": "fixed_string", "P": "const CT*", "S": "std::string"}[x] for x in sig(f)))
            bad = None
            for c in (-1, 0, 1):
                got = evaluate(f, c)
                want = {"==": c == 0, "!=": c != 0, "<": c < 0, "<=": c <= 0, ">": c > 0, ">=": c >= 0}[op]
                if got is None:
                    bad = ("?", c)
                    break
                if bool(got) != want:
                    bad = (got, c)
                    break
            if bad and bad[0] == "?":
                rep.inconclusive(R, lab, "3-way ordering", where=d.where(f), detail="body `%s` not evaluable" % d.text(ir.body(f))[:80].replace("\n", " "))
            elif bad:
                rel = {-1: "lhs < rhs", 0: "lhs == rhs", 1: "lhs > rhs"}[bad[1]]
                rep.violates(R, lab, "3-way ordering", where=d.where(f), scenario=rel, detail="returns %s when %s" % (bool(bad[0]), rel))
            else:
                rep.holds(R, lab, "3-way ordering", where=d.where(f), detail="lhs<rhs, lhs==rhs, lhs>rhs")
    if n < 30:
        rep.broke("C01.order: only %d distinct relational overloads instantiated (30 expected)" % n)
    # compare_impl
    for fn in S.fns:
        if fn.get("name") != "compare_impl":
            continue
        s1, c1, s2, c2 = [p.get("name") for p in ir.params(fn)]
        lab = "%s::compare_impl" % S.tag
        linit = {}
        for x in ir.walk_expr(fn):
            if x.get("kind") == "VarDecl" and ir.ekids(x):
                linit[x.get("name")] = ir.sx(ir.ekids(x)[-1])
        # the traits comparison covers min(count1, count2) characters of (s1, s2) in that order
        tc = [ir.sx(x) for x in ir.walk_expr(fn) if x.get("kind") == "CallExpr" and (ir.strip(ir.ekids(x)[0]).get("referencedDecl") or {}).get("name") == "compare"]
        ok = False
        det = "no traits_type::compare call"
        if len(tc) == 1:
            a = list(tc[0][2:])
            ln = a[2]
            if ln[0] == "ref" and ln[1] in linit:
                ln = linit[ln[1]]
            # the length is min(count1, count2) however it is written: evaluated under the three orderings of the counts
            islen = all(eval_pos(ln, {c1: x_, c2: y_}) == min(x_, y_) for x_, y_ in ((1, 2), (2, 2), (2, 1), (0, 3), (3, 0)))
            ok = a[0] == ("ref", s1) and a[1] == ("ref", s2) and islen
            det = "compares `%s`" % ir.show(tc[0])
        (rep.holds if ok else rep.violates)(R, lab, "common prefix compared in operand order", where=d.where(fn), **({} if ok else {"detail": det + "; expected traits::compare(s1, s2, min(count1, count2))"}))
        resvars = {k for k, v in linit.items() if v[0] == "call" and v[1] == ("ref", "compare")}
        paths = flow.function_paths(fn, with_ctor_inits=False)
        for rsign, crel, same_ptr in itertools.product((-1, 0, 1), ("<", "=", ">"), (False, True)):
            if same_ptr and rsign != 0:
                continue        # ranges that start at the same address have equal common prefixes
            cv = {"<": (1, 2), "=": (2, 2), ">": (2, 1)}[crel]
            # the two ranges may start at the same character (a string compared with a longer or shorter range of itself)
            env = {c1: cv[0], c2: cv[1], s1: 4096, s2: 4096 if same_ptr else 8192}
            for rv in resvars:
                env[rv] = rsign * 7
            got = None
            for path in paths:
                feas = True
                for s in path:
                    if s[0] == "cond":
                        v = eval_pos(ir.sx(s[1]), env)
                        if v is None:
                            feas = None
                            break
                        if bool(v) != s[2]:
                            feas = False
                            break
                if feas is None:
                    got = "?"
                    break
                if feas and path[-1][0] == "return":
                    got = eval_pos(ir.sx(ir.ekids(path[-1][1])[0]), env)
                    if got is None:
                        # literal -1 is ("un","-",("lit","1"))
                        t = ir.sx(ir.ekids(path[-1][1])[0])
                        got = -eval_pos(t[2], env) if t[0] == "un" and t[1] == "-" and eval_pos(t[2], env) is not None else "?"
                    break
            want = rsign if rsign != 0 else {"<": -1, "=": 0, ">": 1}[crel]
            scen = "traits compare %s 0, count1 %s count2%s" % ({-1: "<", 0: "==", 1: ">"}[rsign], crel if crel != "=" else "==", ", both ranges start at the same address" if same_ptr else "")
            if got == "?" or got is None:
                rep.inconclusive(R, lab, "result sign", where=d.where(fn), scenario=scen, detail="path or result not evaluable")
            elif (got > 0) - (got < 0) != want:
                rep.violates(R, lab, "result sign", where=d.where(fn), scenario=scen, detail="returns %s, expected a %s value" % (got, {-1: "negative", 0: "zero", 1: "positive"}[want]))
            else:
                rep.holds(R, lab, "result sign", where=d.where(fn), scenario=scen)


# ---------------------------------------------------------------------------------------------------------------------
# C01.window
def rule_window(rep, S):
    """search loops that keep a cursor p and a remaining count n (`n -= A; p = B` in the increment of a for or the body of a while):
    one iteration, executed symbolically in statement order, must leave p + n unchanged"""
    R = "C01.window"
    d = S.d
    found = 0
    for fn in S.fns:
        if not (fn.get("name") or "").startswith(("find", "rfind")):
            continue
        for loop in [n for n in ir.walk_expr(fn) if n.get("kind") in ("ForStmt", "WhileStmt", "DoStmt")]:
            raw = [x for x in loop.get("inner", [])]
            seq = []
            if loop.get("kind") == "ForStmt":
                body = raw[4] if len(raw) > 4 else None
                inc = raw[3] if len(raw) > 3 and isinstance(raw[3], dict) and raw[3].get("kind") else None
            elif loop.get("kind") == "WhileStmt":
                body, inc = (raw[-1] if raw else None), None
            else:
                body, inc = (raw[0] if raw else None), None
            if isinstance(body, dict) and body.get("kind") == "CompoundStmt":
                seq += [x for x in ir.kids(body) if x.get("kind") in ("BinaryOperator", "CompoundAssignOperator", "UnaryOperator", "ExprWithCleanups", "ParenExpr")]
            if inc is not None:
                seq.append(inc)
            parts = []

            def flat(x):
                x = ir.strip(x)
                if x.get("kind") == "BinaryOperator" and x.get("opcode") == ",":
                    for k_ in ir.ekids(x):
                        flat(k_)
                else:
                    parts.append(x)
            for x in seq:
                flat(x)
            env = {}

            def symmap(x):
                if x[0] == "ref":
                    return env.get(x[1], x[1])
                return None

            def lin_of(node):
                t = ir.sx(node)
                lf = linear.lin(t, lambda x: x[1] if x[0] == "ref" else None)
                if lf is None:
                    return None
                out = Lin()
                for k_, c_ in lf.items():
                    if k_ in env:
                        out = out + Lin({a_: b_ * c_ for a_, b_ in env[k_].items()})
                    else:
                        out = out + Lin({k_: c_})
                return out
            counts, cursors, bad = [], [], None
            for x in parts:
                k_ = x.get("kind")
                ks = ir.ekids(x)
                if k_ in ("BinaryOperator", "CompoundAssignOperator") and x.get("opcode") in ("=", "-=", "+=") and ir.strip(ks[0]).get("kind") == "DeclRefExpr":
                    nm = (ir.strip(ks[0]).get("referencedDecl") or {}).get("name")
                    rhs = lin_of(ks[1])
                    isptr = "*" in ir.qtype(ks[0]) or "pointer" in ir.qtype(ks[0])
                    cur = env.get(nm, Lin({nm: 1}))
                    if x.get("opcode") == "=":
                        if rhs is None:
                            env[nm] = Lin({nm + "'": 1})       # re-assigned from a call (the next hit): a fresh value
                        else:
                            env[nm] = rhs
                            if isptr:
                                cursors.append(nm)
                    else:
                        if rhs is None:
                            bad = x
                            env[nm] = Lin({nm + "'": 1})
                        else:
                            env[nm] = cur - rhs if x.get("opcode") == "-=" else cur + rhs
                            if not isptr:
                                counts.append(nm)
                elif k_ == "UnaryOperator" and x.get("opcode") in ("++", "--") and ir.strip(ks[0]).get("kind") == "DeclRefExpr":
                    nm = (ir.strip(ks[0]).get("referencedDecl") or {}).get("name")
                    cur = env.get(nm, Lin({nm: 1}))
                    env[nm] = cur + Lin({"": 1 if x.get("opcode") == "++" else -1})
                    if "*" in ir.qtype(ks[0]):
                        cursors.append(nm)
                    else:
                        counts.append(nm)
            counts = sorted(set(counts))
            cursors = sorted(set(cursors))
            if len(counts) != 1 or len(cursors) != 1:
                continue
            found += 1
            nvar, pvar = counts[0], cursors[0]
            lab = "%s::%s" % (S.tag, S.label(fn))
            where = d.where(inc if inc is not None else loop)
            cons = "loop step of the (%s, %s) search window" % (pvar, nvar)
            if bad is not None:
                rep.inconclusive(R, lab, cons, where=where, detail="step is not linear in the cursor variables")
                continue
            total = env[nvar] + env[pvar] - Lin({nvar: 1}) - Lin({pvar: 1})
            if total == Lin():
                rep.holds(R, lab, cons, where=where, detail="%s + %s is invariant (cursor advances by exactly what the remaining count loses)" % (pvar, nvar))
            else:
                rep.violates(R, lab, cons, where=where,
                             detail="the search window end %s + %s changes by %s per iteration: the remaining count no longer matches the cursor, so the search can run past size()" % (pvar, nvar, total.show()))
    if found == 0:
        rep.note("%s: no cursor/remaining-count search loop in the find family (index-based loops carry no window obligation)" % S.tag)


# ---------------------------------------------------------------------------------------------------------------------
# C01.deleg
FAMILIES = {"find", "rfind", "find_first_of", "find_first_not_of", "find_last_of", "find_last_not_of", "compare", "replace", "insert", "append", "assign", "erase"}
ALSO = {"operator+=": {"append"}, "operator=": {"assign"}, "compare": {"compare", "compare_impl"}, "push_back": {"append", "insert"}, "substr": set()}


def rule_deleg(rep, S):
    """pure forwarding overloads: same-named worker, every parameter forwarded, a buffer always travels with the size of the same object"""
    R = "C01.deleg"
    d = S.d
    n = 0
    access = fs.member_access(S.cls)
    for fn in S.fns:
        b = ir.body(fn)
        ks = ir.kids(b) if b else []
        if len(ks) != 1 or ks[0].get("kind") != "ReturnStmt" or not ir.ekids(ks[0]):
            continue
        e = ir.strip(ir.ekids(ks[0])[0])
        callee = fs.this_member_call(e)
        own = fn.get("name")
        if callee is None or (own not in FAMILIES and own not in ALSO):
            continue
        n += 1
        lab = "%s::%s" % (S.tag, S.label(fn))
        allowed = ALSO.get(own, set()) | ({own} if own in FAMILIES else set())
        if own == "compare":
            allowed = {"compare", "compare_impl"}
        t = ir.sx(e)
        args = t[2:]
        if callee not in allowed:
            tg_ = fs.member_target(d, e)
            if tg_ is not None and ir.has_body(tg_) and access.get(tg_.get("id"), "public") != "public" and callee not in FAMILIES:
                # the body of this overload lives in a non-public helper of the class: it is a worker, not a forwarding overload;
                # the helper is analysed like every other member
                rep.holds(R, lab, "forwards to its own worker", where=d.where(e), detail="implemented by the non-public helper `%s`" % callee, nontrivial=False)
                continue
            rep.violates(R, lab, "forwards to its own worker", where=d.where(e), detail="`%s` forwards to `%s(...)`; the overloads of %s must share the worker of the same name" % (own, callee, own))
            continue
        problems = []
        # every parameter is forwarded (a dropped position/count silently becomes a default)
        for p in ir.params(fn):
            if not any(s_ == ("ref", p.get("name")) for a in args for s_ in ir.subterms(a)):
                problems.append("parameter `%s` is not forwarded" % p.get("name"))
        # buffers travel with the size of the same object
        for a in args:
            for s_ in ir.subterms(a):
                if s_[0] == "call" and s_[1][0] == "mem" and s_[1][2] in ("data", "c_str") and len(s_) == 2 and s_[1][1] != ("this",):
                    obj = s_[1][1]
                    sizes = [x for b_ in args for x in ir.subterms(b_) if x[0] == "call" and x[1][0] == "mem" and x[1][2] in ("size", "length") and len(x) == 2 and x[1][1] != ("this",)]
                    if sizes and not any(x[1][1] == obj for x in sizes):
                        problems.append("the characters of `%s` are passed with the size of `%s`" % (ir.show(obj), ir.show(sizes[0][1][1])))
        if problems:
            rep.violates(R, lab, "forwards to its own worker", where=d.where(e), detail="; ".join(problems))
        else:
            rep.holds(R, lab, "forwards to its own worker", where=d.where(e), detail="-> %s(%s)" % (callee, ", ".join(ir.show(a)[:30] for a in args)))
    if n < 40:
        rep.broke("C01.deleg: only %d forwarding overloads found" % n)


# ---------------------------------------------------------------------------------------------------------------------
ALIAS_DRIVER = ('#include "xtl/xbasic_fixed_string.hpp"\n'
                'namespace wxtl { template <class C> std::size_t use() { xtl::xbasic_fixed_string<C, 16> s; s.push_back(C(65)); s.pop_back(); s.resize(3, C(66)); auto t = s; t.append(s); return t.size() + s.size(); }\n'
                'std::size_t all() { return use<wchar_t>() + use<char16_t>() + use<char32_t>() + use<char>(); } }\n')


def rule_alias(rep):
    """the character buffer of a wide fixed string is an array of wchar_t / char16_t / char32_t: reading or writing an element through a pointer to
    another type (other than a char type) is outside the aliasing rule and lets the optimiser reorder it against the ordinary accesses"""
    rep.rule("C01.alias", "in the storage classes instantiated for wchar_t, char16_t, char32_t (and char) no element of the character buffer is accessed through a "
                          "pointer obtained by reinterpreting the buffer as a different non-character type (strict aliasing: the packed length lives in the last element)")
    R = "C01.alias"
    d = cj.dump(ALIAS_DRIVER, "xtl::")
    rep.cmd(d.cmd)
    n = 0
    for cls in d.walk():
        if cls.get("kind") != "ClassTemplateSpecializationDecl" or "storage_impl" not in (cls.get("name") or ""):
            continue
        targ = " ".join(ir.template_args(cls))
        elem = targ.split("[")[0].replace("*", "").strip()
        if elem not in ("wchar_t", "char16_t", "char32_t", "char"):
            continue
        n += 1
        bad = None
        for f in ir.kids(cls):
            if f.get("kind") not in ("CXXMethodDecl", "CXXConstructorDecl") or not ir.has_body(f):
                continue
            for x in ir.walk_expr(f):
                if x.get("kind") in ("CXXReinterpretCastExpr", "CStyleCastExpr") and x.get("castKind") == "BitCast":
                    to = ir.qtype(x).replace("const ", "").replace("*", "").strip()
                    to_d = ((x.get("type") or {}).get("desugaredQualType") or ir.qtype(x)).replace("const ", "").replace("*", "").strip()
                    src = ir.qtype(ir.ekids(x)[0]).replace("const ", "").replace("*", "").strip() if ir.ekids(x) else ""
                    if "*" in ir.qtype(x) and to_d not in ("char", "unsigned char", "std::byte", "void", elem) and elem in src:
                        bad = (x, f, to_d)
        label = "%s<%s>" % (cls.get("name"), targ)
        if bad:
            rep.violates(R, label, "buffer accessed through its own element type", where=d.where(bad[0]),
                         detail="`%s` in %s reinterprets the %s buffer as %s: that access may be reordered against the ordinary element accesses (e.g. the "
                                "stores of a copied string), so size() can return a stale length with optimisation" % (d.text(bad[0])[:60], bad[1].get("name"), elem, bad[2]))
        else:
            rep.holds(R, label, "buffer accessed through its own element type", where=d.where(cls))
    if n < 4:
        rep.broke("C01.alias: storage classes for the wide character types were not instantiated (%d found)" % n)


def run(tier):
    rep = Report("C01", tier, "other",
                 "Structural necessary conditions only (equivalence with std::basic_string over all histories is a statement about run-time contents and is NOT "
                 "decided): (enc) for each storage layout and capacity incl. N=1, N=255 (largest packed) and N=256 (smallest size-field) the stores of "
                 "set_size/adjust_size are folded exactly for every length 0..N and size() must decode that length with the NUL at data()[size()] - this covers "
                 "the length byte doubling as terminator at full capacity; (len) on every path of every mutator no derived-length read (size/end/back/...) follows "
                 "a possibly growing publication or a terminator overwrite - necessary on the strlen layout where the length is recomputed from the bytes; (defarg) "
                 "every defaulted parameter of the ~150 member declarations equals [basic.string]'s table; (bound) the iterator forms of insert/erase/replace take "
                 "their mutating path for every ordering of valid positions incl. end() and empty ranges; (selflen) conversions to std::string / streams pass "
                 "(data(), size()); (order) the 30 relational overloads evaluate to the 3-way result of compare for <,==,> and compare_impl has the "
                 "lexicographic sign table; (window) cursor + remaining-count is invariant in the find loops.",
                 trusted_base=["clang 14 resolved AST", "sa/ceval.py exact integer folding", "sa/flow.py", "the [basic.string] default-argument table in sa/rules/c01.py"],
                 assumptions=["embedded NUL is in scope only where a fixed string passes its own buffer on", "x86-64: char signed 8-bit, wchar_t 32-bit"])
    rep.rule("C01.enc", "for every length 0..N: after set_size(len) (and adjust_size(+-1) from it) size() == len and data()[len] == NUL, for the packed, size-field and strlen layouts")
    rep.rule("C01.len", "no size()/length()/empty()/end()/cend()/back()/rbegin() on *this after a possibly growing set_size/adjust_size of the same body, nor after the terminator was overwritten")
    rep.rule("C01.defarg", "every defaulted parameter has the default std::basic_string gives it (0 for forward searches/substr/copy/erase positions, npos for reverse searches and counts), and no other parameter is defaulted")
    rep.rule("C01.bound", "insert(pos,...) mutates for every begin() <= pos <= end(); replace(first,last,...) for every begin() <= first <= last <= end(); erase(first,last) for every begin() <= first < end()")
    rep.rule("C01.selflen", "a fixed string's buffer reaches a std::basic_string constructor / stream only together with its own size()")
    rep.rule("C01.order", "each relational overload is true exactly for the compare() signs its name says; compare_impl returns the traits result if non-zero, else the sign of count1 - count2, over min(count1,count2) characters")
    rep.rule("C01.obj", "a position parameter is offset into / subtracted from the size of the same object it was validated against (clamps like min(count, X.size() - pos) "
                        "must use the X whose characters are read), otherwise substrings of the wrong length are compared/copied")
    rep.rule("C01.pub", "the length a mutator publishes is exactly the value the capacity check saw (result length, not an intermediate sum), so operations whose result fits are not rejected")
    rep.rule("C01.reads", "a traits compare/find of the search and compare family over the string's own buffer covers a range that provably ends at or before data()+size(): "
                          "bytes behind the terminator never take part in a search or comparison result")
    rep.rule("C01.deleg", "every pure forwarding overload of the search/compare/replace/insert/append/assign/erase families calls the worker of its own name, forwards every "
                          "parameter, and passes a string's characters together with the size of that same string")
    rep.rule("C01.window", "in search loops stepping a cursor and a remaining count together, cursor + remaining is invariant")
    insts = INSTS[tier]
    d = cj.dump(fs.driver(insts), "xtl::")
    rep.cmd(d.cmd)
    strs = fs.gather(d, insts)
    if set(strs) != {i[0] for i in insts}:
        raise cj.AnalysisBroken("instantiations found: %s, expected %s" % (sorted(strs), sorted(i[0] for i in insts)))
    caps = {i[0]: i[2] for i in insts}
    for tag in sorted(strs):
        rule_enc(rep, strs[tag], caps[tag])
    main = [strs["P16"], strs["E16"]]
    for S in main:
        rep.unit("%s: %d member instantiations" % (S.tag, len(S.fns)))
        rule_len(rep, S)
        rule_bound(rep, S)
        rule_window(rep, S)
        rule_deleg(rep, S)
        from .c02 import rule_pos, rule_pub, rule_extent
        rule_pos(rep, S, "C01.obj")
        rule_pub(rep, S, "C01.pub")
        rule_extent(rep, S, 16, "read", "C01.reads")
    rule_defarg(rep, d)
    rule_selflen(rep, d, strs["P16"])
    rule_empty(rep, strs["P16"])
    rule_order(rep, d, strs["P16"])
    rule_alias(rep)
    return rep
