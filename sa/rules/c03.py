"""C03 - dynamic bitset / bitset view: canonical last block (typestate over every member, path-sensitive), at() guard,
no element access on a possibly empty buffer, block-count/size agreement, exhaustive folding of the bit/block helper
formulas over all bit offsets, bit-flow analysis of the two shift algorithms (uniform displacement, index range,
coverage), grow-with-true patch, type-decided comparisons.  Bit *values* produced by histories are not decided."""
import itertools
import re

from .. import clangjson as cj
from .. import ir
from .. import ceval
from .. import flow
from .. import trange
from .. import linear
from ..linear import Lin
from ..report import Report

BLOCKS = {"quick": ["std::uint8_t", "std::uint16_t", "std::uint32_t", "std::uint64_t"], "thorough": ["std::uint8_t", "std::uint16_t", "std::uint32_t", "std::uint64_t"]}
WIDTH = {"unsigned char": 8, "unsigned short": 16, "unsigned int": 32, "unsigned long": 64}
CLASSES = ("xdynamic_bitset_base", "xdynamic_bitset", "xdynamic_bitset_view")
BPB = (("mem", ("this",), "s_bits_per_block"), ("ref", "s_bits_per_block"))

DRIVER = r'''
#include "xtl/xdynamic_bitset.hpp"
#include <cstdint>
#include <vector>
namespace drv {
template <class B> void use()
{
    using bs = xtl::xdynamic_bitset<B>;
    using view = xtl::xdynamic_bitset_view<B>;
    std::vector<B> blocks(3);
    bs a, b(10, true), c(10), d(blocks.begin(), blocks.end()), e({true, false}), f(b), h{std::allocator<B>()};
    view v(blocks.data(), 17);
    bs g(v);
    a.assign(5, true); a.assign(blocks.begin(), blocks.end()); a.assign({true, false});
    a.resize(7, true); a.clear(); a.push_back(true); a.pop_back(); a.reserve(3);
    (void)a.max_size(); (void)a.capacity(); (void)a.get_allocator();
    a.swap(b); swap(a, b);
    (void)a.at(0); (void)a[0]; (void)a.front(); (void)a.back();
    const bs& ca = a;
    (void)ca.at(0); (void)ca[0]; (void)ca.front(); (void)ca.back();
    for (auto it = a.begin(); it != a.end(); ++it) { *it = true; }
    for (auto it = ca.begin(); it != ca.end(); ++it) { (void)bool(*it); }
    (void)a.rbegin(); (void)a.rend(); (void)ca.rbegin(); (void)ca.rend(); (void)ca.crbegin(); (void)ca.crend(); (void)ca.cbegin(); (void)ca.cend();
    (void)ca.block_begin(); (void)ca.block_end();
    a &= b; a |= b; a ^= b; a &= v; a |= v; a ^= v;
    (void)(a << 3); a <<= 3; (void)(a >> 3); a >>= 3;
    a.set(); a.set(1, true); a.reset(); a.reset(1); a.flip(); a.flip(1);
    (void)a.all(); (void)a.any(); (void)a.none(); (void)a.count(); (void)a.block_count(); (void)a.data(); (void)ca.data();
    (void)(a == b); (void)(a != b); (void)(a == v); (void)(a != v);
    (void)~a; (void)(a & b); (void)(a | b); (void)(a ^ b);
    (void)a.empty(); (void)a.size();
    const view& cv = v;
    v.resize(17); v.set(); v.set(1, true); v.reset(); v.reset(1); v.flip(); v.flip(1); v <<= 2; v >>= 2; v &= a; v |= a; v ^= a;
    (void)v.count(); (void)v.all(); (void)v.any(); (void)v.none(); (void)(v == a); (void)(v != a); (void)v.at(0); (void)cv.at(0); (void)v[0]; (void)cv[0];
    (void)v.front(); (void)v.back(); (void)cv.front(); (void)cv.back(); (void)v.begin(); (void)v.end(); (void)cv.begin(); (void)cv.end();
    (void)v.empty(); (void)v.size(); (void)v.block_count(); (void)v.data(); (void)cv.data();
    (void)~v; (void)(v << 1); (void)(v >> 1); v.swap(v);
    auto r = a[1]; r = true; r = a[0]; { auto r2 = a[0]; r = r2; } r &= true; r |= true; r ^= true; r.flip(); (void)~r; (void)bool(r); (void)&r;
    auto cr = ca[1]; (void)bool(cr); (void)~cr;
    auto it = a.begin(); ++it; --it; it += 1; it -= 1; (void)(it - a.begin()); (void)(it == a.begin()); (void)(it < a.end()); (void)*it;
}
%s
}
'''


def driver(blocks):
    return DRIVER % "\n".join("template void use<%s>();" % b for b in blocks)


# ---------------------------------------------------------------------------------------------------------------------
# gathering
class Inst:
    """all member instantiations for one block type"""

    def __init__(self, d, btype):
        self.d = d
        self.btype = btype
        self.W = WIDTH[btype]
        self.full = (1 << self.W) - 1
        self.fns = []        # (class name, derived kind, fn)

    def find(self, name, cls=None, kind=None):
        return [f for c, k, f in self.fns if f.get("name") == name and (cls is None or c == cls) and (kind is None or k == kind)]


def gather(d):
    insts = {}
    for f in ir.functions(d):
        if ir.is_template_pattern(d, f):
            continue
        c = ir.enclosing_class(d, f)
        if c is None or c.get("name") not in CLASSES + ("xbitset_reference", "xbitset_iterator"):
            continue
        ta = " ".join(ir.template_args(c))
        m = re.search(r"xdynamic_bitset(_view)?<(unsigned (?:char|short|int|long))", ta) or re.match(r"(?:())(unsigned (?:char|short|int|long))", ta)
        if not m:
            continue
        bt = m.group(2)
        kind = "view" if "xdynamic_bitset_view<" in ta or c.get("name") == "xdynamic_bitset_view" else "owning"
        insts.setdefault(bt, Inst(d, bt)).fns.append((c.get("name"), kind, f))
    return insts


def label(cname, kind, fn, inst):
    ps = ",".join(ir.qtype(p).replace("xtl::", "").replace("std::", "")[:28] for p in ir.params(fn))
    q = " const" if "const" in (ir.qtype(fn).rsplit(")", 1)[-1]) else ""
    return "%s<%s%s>::%s(%s)%s" % (cname, inst.btype, ",view" if kind == "view" and cname == "xdynamic_bitset_base" else "", fn.get("name"), ps, q)


def is_this(n):
    n = ir.strip(n)
    return n.get("kind") == "CXXThisExpr"


def member_of_this(n, name=None):
    """n is `this->name` (through base casts)"""
    n = ir.strip(n)
    if n.get("kind") != "MemberExpr":
        return False
    ks = ir.ekids(n)
    if ks and not is_this(ks[0]):
        return False
    return name is None or n.get("name") == name


def this_call(n, names=None):
    """n is a call `this->f(...)`; returns f's name"""
    if n.get("kind") != "CXXMemberCallExpr":
        return None
    c = ir.strip(ir.ekids(n)[0])
    if c.get("kind") != "MemberExpr":
        return None
    ks = ir.ekids(c)
    if ks and not is_this(ks[0]):
        return None
    nm = c.get("name")
    if names is not None and nm not in names:
        return None
    return nm


def locals_init(fn):
    """local variable decl id -> initialiser node (single-assignment locals only)"""
    out = {}
    assigned = set()
    for n in ir.walk_expr(fn):
        if n.get("kind") == "VarDecl" and ir.ekids(n):
            out[n.get("id")] = ir.ekids(n)[-1]
        if n.get("kind") in ("BinaryOperator", "CompoundAssignOperator") and n.get("opcode", "").endswith("=") and n.get("opcode") not in ("==", "!=", "<=", ">="):
            l = ir.strip(ir.ekids(n)[0])
            if l.get("kind") == "DeclRefExpr":
                assigned.add((l.get("referencedDecl") or {}).get("id"))
        if n.get("kind") == "UnaryOperator" and n.get("opcode") in ("++", "--"):
            l = ir.strip(ir.ekids(n)[0])
            if l.get("kind") == "DeclRefExpr":
                assigned.add((l.get("referencedDecl") or {}).get("id"))
    return {k: v for k, v in out.items() if k not in assigned}, assigned


def resolve_local(n, linit):
    """follow a reference to a single-assignment local to its initialiser"""
    seen = 0
    while seen < 8:
        s = ir.strip(n)
        if s.get("kind") == "DeclRefExpr":
            rid = (s.get("referencedDecl") or {}).get("id")
            if rid in linit:
                n = linit[rid]
                seen += 1
                continue
        return s
    return ir.strip(n)


M_SIZE = ("mem", ("this",), "m_size")
N_BLOCKS = ("call", ("mem", ("this",), "block_count"))


def local_terms(fn):
    """name -> sx of the initialiser, for single-assignment locals"""
    linit, _ = locals_init(fn)
    out = {}
    for n in ir.walk_expr(fn):
        if n.get("kind") == "VarDecl" and n.get("id") in linit:
            out[n.get("name")] = ir.sx(linit[n.get("id")])
    return out


def canon(t, lt, depth=0):
    """canonical term: single-assignment locals replaced by their initialisers, accessor spellings unified
    (size() = m_size, m_buffer.size() = block_count(), count_extra_bits() = bit_index(m_size)), casts dropped"""
    if not isinstance(t, tuple) or depth > 12:
        return t
    if t[0] == "cast":
        return canon(t[3], lt, depth + 1)
    if t[0] == "ref" and t[1] in lt:
        return canon(lt[t[1]], lt, depth + 1)
    if t == ("call", ("mem", ("this",), "size")) or t == ("call", ("mem", ("this",), "length")):
        return M_SIZE
    if t == ("call", ("mem", ("mem", ("this",), "m_buffer"), "size")):
        return N_BLOCKS
    if t == ("call", ("mem", ("this",), "count_extra_bits")):
        return ("call", ("mem", ("this",), "bit_index"), M_SIZE)
    if t[0] == "bin" and t[1] == "%" and canon(t[3], lt, depth + 1) in BPB:
        return ("call", ("mem", ("this",), "bit_index"), canon(t[2], lt, depth + 1))
    return tuple(canon(x, lt, depth + 1) if isinstance(x, tuple) else x for x in t)


# ---------------------------------------------------------------------------------------------------------------------
# C03.helpers - exhaustive folding of the helper formulas
def rule_helpers(rep, inst, R="C03.helpers"):
    d, W, full = inst.d, inst.W, inst.full

    def base_fn(name):
        c = inst.find(name, "xdynamic_bitset_base", "owning") or inst.find(name, "xdynamic_bitset_base")
        if not c:
            raise cj.AnalysisBroken("helper %s<%s> not instantiated" % (name, inst.btype))
        return c[0]

    def fold_fn(fn, argvals, members):
        ret, decls = ceval._single_return(fn)
        if ret is None:
            raise ceval.Unknown("not a single-return helper")
        ctx = ceval.Ctx(d, {}, members)
        for p, v in zip(ir.params(fn), argvals):
            ctx.env[p.get("id")] = v
        for v in decls:
            ctx.env[v.get("id")] = ceval.conv(ceval.ev(ir.ekids(v)[-1], ctx), ir.qtype(v))
        return ceval.ev(ir.ekids(ret)[0], ctx)

    def sweep(name, fn, domain, want, members=lambda x: {}, what=""):
        bad = None
        n = 0
        try:
            for x in domain:
                args = x if isinstance(x, tuple) else (x,)
                try:
                    got = fold_fn(fn, args, members(x))
                except ceval.UB as e:
                    bad = (x, "undefined behaviour: %s" % e)
                    break
                n += 1
                if got != want(x):
                    bad = (x, "yields %s, expected %s" % (got, want(x)))
                    break
        except ceval.Unknown as e:
            rep.inconclusive(R, "%s<%s>" % (name, inst.btype), what, where=d.where(fn), detail="cannot fold: %s" % e)
            return
        if bad:
            rep.violates(R, "%s<%s>" % (name, inst.btype), what, where=d.where(fn), scenario="argument %s" % (bad[0],),
                         detail="%s for %s: %s" % (name, bad[0], bad[1]))
        else:
            rep.holds(R, "%s<%s>" % (name, inst.btype), what, where=d.where(fn), detail="%d points folded" % n)

    big = [(1 << 40) + k for k in (0, 1, W - 1, W)]
    pos_dom = list(range(0, 4 * W + 1)) + big
    sweep("block_index", base_fn("block_index"), pos_dom, lambda p: p // W, what="pos / bits_per_block")
    sweep("bit_index", base_fn("bit_index"), pos_dom, lambda p: p % W, what="pos % bits_per_block")
    sweep("bit_mask", base_fn("bit_mask"), pos_dom, lambda p: 1 << (p % W), what="single bit at pos % bits_per_block, in the block type")
    sweep("compute_block_count", base_fn("compute_block_count"), pos_dom, lambda n: -(-n // W), what="ceil(bits / bits_per_block)")
    sweep("count_extra_bits", base_fn("count_extra_bits"), [()] * 0 + [(s,) for s in pos_dom], lambda s: s[0] % W,
          members=lambda s: {"m_size": s[0]}, what="size % bits_per_block") if False else None
    # count_extra_bits / size / empty depend on m_size only
    cx = base_fn("count_extra_bits")
    bad = None
    try:
        for s in pos_dom:
            got = fold_fn(cx, (), {"m_size": s})
            if got != s % W:
                bad = (s, got)
                break
        if bad:
            rep.violates(R, "count_extra_bits<%s>" % inst.btype, "size % bits_per_block", where=d.where(cx), scenario="m_size=%d" % bad[0],
                         detail="yields %d, expected %d" % (bad[1], bad[0] % W))
        else:
            rep.holds(R, "count_extra_bits<%s>" % inst.btype, "size % bits_per_block", where=d.where(cx), detail="%d points folded" % len(pos_dom))
    except (ceval.Unknown, ceval.UB) as e:
        rep.inconclusive(R, "count_extra_bits<%s>" % inst.btype, "size % bits_per_block", where=d.where(cx), detail=str(e))
    for nm, want in (("empty", lambda s: 1 if s == 0 else 0), ("size", lambda s: s)):
        fn = base_fn(nm)
        try:
            bad = [s for s in pos_dom if fold_fn(fn, (), {"m_size": s}) != want(s)]
            if bad:
                rep.violates(R, "%s<%s>" % (nm, inst.btype), "reports m_size", where=d.where(fn), scenario="m_size=%d" % bad[0], detail="wrong result")
            else:
                rep.holds(R, "%s<%s>" % (nm, inst.btype), "reports m_size", where=d.where(fn))
        except (ceval.Unknown, ceval.UB) as e:
            rep.inconclusive(R, "%s<%s>" % (nm, inst.btype), "reports m_size", where=d.where(fn), detail=str(e))

    # integer_ceil (free constexpr helper used by the view constructor), instantiated for size_t
    ic = [f for f in ir.functions(d, "integer_ceil") if not ir.is_template_pattern(d, f)]
    if not ic:
        rep.note("integer_ceil is no longer used; the view constructor's block count is checked by C03.blocks only")
    else:
        sweep("integer_ceil", ic[0], [(n, W) for n in pos_dom], lambda x: -(-x[0] // x[1]), what="ceil(n / div)")

    # masks that clear / test the unused bits: the operand of `back() &= ...` in zero_unused_bits() and the value back() is compared with in all(),
    # folded for every extra-bit count e in 1..W-1 (helpers such as low_bits_mask(e) are inlined by the folder)
    EXTRA_T = ("call", ("mem", ("this",), "bit_index"), M_SIZE)
    for fname in ("zero_unused_bits", "all"):
        for fn in inst.find(fname, "xdynamic_bitset_base"):
            lab = "%s<%s>" % (fname, inst.btype)
            lt = local_terms(fn)
            decls = {n.get("name"): n for n in ir.walk_expr(fn) if n.get("kind") == "VarDecl"}
            extra_vars = [nm for nm in lt if canon(("ref", nm), lt) == EXTRA_T]
            if not extra_vars:
                rep.inconclusive(R, lab, "unused-bit mask", where=d.where(fn), detail="no local holding size() % bits_per_block found")
                continue
            evar = decls[extra_vars[0]]
            targets = []
            for n in ir.walk_expr(fn):
                if fname == "zero_unused_bits" and n.get("kind") == "CompoundAssignOperator" and n.get("opcode") == "&=":
                    tg = elem_target(ir.sx(ir.ekids(n)[0]), set())
                    if tg is not None and tg[1] in ("back",) or (tg is not None and isinstance(tg[1], tuple) and tg[1][0] == "bin"):
                        targets.append((ir.ekids(n)[1], ir.qtype(n)))
                if fname == "all" and n.get("kind") == "BinaryOperator" and n.get("opcode") in ("!=", "=="):
                    l_, r_ = ir.ekids(n)
                    for x, y in ((l_, r_), (r_, l_)):
                        tg = elem_target(ir.sx(x), set())
                        if tg is not None and tg[1] == "back":
                            yy = ir.strip(y)
                            if yy.get("kind") == "DeclRefExpr" and (yy.get("referencedDecl") or {}).get("name") in decls and ir.ekids(decls[(yy.get("referencedDecl") or {}).get("name")]):
                                dv = decls[(yy.get("referencedDecl") or {}).get("name")]
                                targets.append((ir.ekids(dv)[-1], ir.qtype(dv)))
                            else:
                                targets.append((y, inst.btype))
            if not targets:
                rep.inconclusive(R, lab, "unused-bit mask", where=d.where(fn), detail="the mask applied to / compared with the last block was not found")
                continue
            for top, tq in targets:
                bad = None
                try:
                    for e in range(1, W):
                        v = ceval.ev(top, ceval.Ctx(d, {evar.get("id"): e}, {}))
                        v = ceval.conv(v, tq.replace("const ", "") if trange.type_range(tq.replace("const ", "")) else inst.btype)
                        v = ceval.conv(v, inst.btype)
                        if v != (1 << e) - 1:
                            bad = (e, v)
                            break
                except ceval.UB as ex:
                    bad = (e, "UB: %s" % ex)
                except ceval.Unknown as ex:
                    rep.inconclusive(R, lab, "unused-bit mask", where=d.where(top), detail="cannot fold `%s`: %s" % (d.text(top)[:60], ex))
                    continue
                if bad:
                    rep.violates(R, lab, "unused-bit mask", where=d.where(top), scenario="extra_bits=%d" % bad[0],
                                 detail="`%s` is %s for extra_bits=%d, expected the low %d bits (%#x)" % (d.text(top)[:60], bad[1] if isinstance(bad[1], str) else hex(bad[1]), bad[0], bad[0], (1 << bad[0]) - 1))
                else:
                    rep.holds(R, lab, "unused-bit mask", where=d.where(top), detail="low `e` bits for every e in 1..%d" % (W - 1))

    # count(): the byte-wise popcount table and the number of bytes scanned
    for fn in inst.find("count", "xdynamic_bitset_base")[:1]:
        lab = "count<%s>" % inst.btype
        tables = [n for n in ir.walk_expr(fn) if n.get("kind") == "VarDecl" and "[" in ir.qtype(n) and ir.ekids(n)]
        member_tables = []
        for n in ir.walk_expr(fn):
            if n.get("kind") in ("DeclRefExpr", "MemberExpr"):
                dd = d.by_id.get((n.get("referencedDecl") or {}).get("id") or n.get("referencedMemberDecl"))
                if dd is not None and dd.get("kind") == "VarDecl" and "[256]" in ir.qtype(dd) and ir.ekids(dd):
                    member_tables.append(dd)
        tables = tables or member_tables
        if not tables:
            # no lookup table: a helper that counts the bits of a block (a SWAR popcount, std::popcount behind a wrapper) - folded exactly on block
            # values that exercise every byte lane: single bits, all ones, alternating patterns
            helper = None
            for c_ in ir.walk_expr(fn):
                if c_.get("kind") == "CallExpr" and ir.ekids(c_) and len(ir.ekids(c_)) == 2:
                    cal_ = ir.strip(ir.ekids(c_)[0])
                    tg_ = d.by_id.get((cal_.get("referencedDecl") or {}).get("id")) if cal_.get("kind") == "DeclRefExpr" else None
                    if tg_ is not None and ir.body(tg_) is not None and ir.in_repo(tg_) and len(ir.params(tg_)) == 1 and trange.type_range(ir.qtype(ir.params(tg_)[0])) is not None:
                        helper = (c_, tg_)
                        break
            if helper is None:
                rep.inconclusive(R, lab, "popcount table", where=d.where(fn), detail="no 256-entry table found in count()")
            else:
                call_, tg_ = helper
                pid_ = ir.params(tg_)[0].get("id")
                vals_ = sorted({0, full, 0x5555555555555555 & full, 0xAAAAAAAAAAAAAAAA & full, 0x0F0F0F0F0F0F0F0F & full} | {1 << k_ for k_ in range(W)} | {full ^ (1 << k_) for k_ in range(W)})
                badv = None
                try:
                    for v_ in vals_:
                        # the call itself, with the block value in the helper's parameter: argument conversions included
                        fake = ceval.Ctx(d, {pid_: v_})
                        got = ceval._straight_line(tg_, [], fake, {pid_: ceval.conv(v_, ir.qtype(ir.params(tg_)[0]))}) if ceval._single_return(tg_)[0] is None else None
                        if got is None:
                            ret_, _ = ceval._single_return(tg_)
                            got = ceval.ev(ir.ekids(ret_)[0], fake)
                        if got != bin(v_).count("1"):
                            badv = (v_, got)
                            break
                except ceval.UB as ex:
                    badv = (v_, "undefined behaviour: %s" % ex)
                except ceval.Unknown as ex:
                    rep.inconclusive(R, lab, "popcount helper %s" % tg_.get("name"), where=d.where(tg_), detail=str(ex))
                    badv = "?"
                if badv == "?":
                    pass
                elif badv:
                    rep.violates(R, lab, "popcount helper %s" % tg_.get("name"), where=d.where(tg_), scenario="block value %#x" % badv[0],
                                 detail="%s(%#x) is %s, the block has %d bit(s) set (folded with the integer promotions of the block type)" % (tg_.get("name"), badv[0], badv[1], bin(badv[0]).count("1")))
                else:
                    rep.holds(R, lab, "popcount helper %s" % tg_.get("name"), where=d.where(tg_), detail="%d block values: every single bit, every single hole, patterns" % len(vals_))
        else:
            tv = tables[0]
            init = ir.strip(ir.ekids(tv)[-1])
            vals = []
            for e in ir.ekids(init):
                try:
                    vals.append(ceval.ev(e, ceval.Ctx(d)))
                except (ceval.Unknown, ceval.UB):
                    vals.append(None)
            wrong = [i for i, v in enumerate(vals) if v != bin(i).count("1")]
            if len(vals) != 256:
                rep.violates(R, lab, "popcount table", where=d.where(tv), detail="the table has %d entries, a byte has 256 values" % len(vals))
            elif wrong:
                rep.violates(R, lab, "popcount table", where=d.where(tv), scenario="byte value %d" % wrong[0],
                             detail="entry %d is %s, the number of set bits of %#04x is %d (%d wrong entries)" % (wrong[0], vals[wrong[0]], wrong[0], bin(wrong[0]).count("1"), len(wrong)))
            else:
                rep.holds(R, lab, "popcount table", where=d.where(tv), detail="256 entries = number of set bits of their index")
        # bytes scanned = block count * sizeof(block)
        lens = [ir.sx(ir.ekids(n)[-1]) for n in ir.walk_expr(fn) if n.get("kind") == "VarDecl" and n.get("name") in ("length", "len", "nbytes", "n_bytes") and ir.ekids(n)]
        ok_len = any(t[0] == "bin" and t[1] == "*" and any(x in (("call", ("mem", ("mem", ("this",), "m_buffer"), "size")), ("call", ("mem", ("this",), "block_count"))) for x in t[2:])
                     and any(x[0] == "sizeof" for x in t[2:]) for t in lens)
        if lens:
            (rep.holds if ok_len else rep.violates)(R, lab, "bytes scanned", where=d.where(fn), **({"detail": "block count * sizeof(block_type)"} if ok_len else
                                                                                          {"detail": "scans `%s` bytes, expected block_count() * sizeof(block_type)" % ir.show(lens[0])}))
    # bit reference proxy: mask construction and the read / write primitives
    refs = [f for c, k, f in inst.fns if c == "xbitset_reference"]
    ctor = [f for f in refs if f.get("kind") == "CXXConstructorDecl" and len(ir.params(f)) == 2]
    rl = "xbitset_reference<%s>" % inst.btype
    done = set()
    for f in ctor:
        for ini in [c for c in ir.kids(f) if c.get("kind") == "CXXCtorInitializer"]:
            if (ini.get("anyInit") or {}).get("name") != "m_mask":
                continue
            if "mask" in done:
                continue
            done.add("mask")
            pos = ir.params(f)[1]
            bad = None
            try:
                for p in range(W):
                    v = ceval.conv(ceval.ev(ir.ekids(ini)[0], ceval.Ctx(d, {pos.get("id"): p}, {})), inst.btype)
                    if v != 1 << p:
                        bad = (p, v)
                        break
            except ceval.UB as ex:
                bad = (p, "UB: %s" % ex)
            except ceval.Unknown as ex:
                rep.inconclusive(R, rl, "reference mask", where=d.where(ini), detail=str(ex))
                continue
            if bad:
                rep.violates(R, rl, "reference mask", where=d.where(ini), scenario="pos=%d" % bad[0], detail="mask for bit %d is %s, expected %#x" % (bad[0], bad[1], 1 << bad[0]))
            else:
                rep.holds(R, rl, "reference mask", where=d.where(ini), detail="1 << pos in the block type for pos in 0..%d" % (W - 1))
    if "mask" not in done:
        rep.inconclusive(R, rl, "reference mask", detail="constructor initialising m_mask not found")
    table = {"operator bool": lambda b, m: 1 if b & m else 0, "operator~": lambda b, m: 0 if b & m else 1}
    for f in refs:
        nm = f.get("name")
        if nm in table and nm not in done:
            done.add(nm)
            ret, decls = ceval._single_return(f)
            bad = None
            try:
                for p in range(W):
                    m = 1 << p
                    for b in (0, m, full ^ m, full, 0x5555555555555555 & full):
                        got = ceval.ev(ir.ekids(ret)[0], ceval.Ctx(d, {}, {"m_block": b, "m_mask": m}))
                        if got != table[nm](b, m):
                            bad = (p, b, got)
                            break
                    if bad:
                        break
            except (ceval.Unknown, ceval.UB, TypeError) as ex:
                rep.inconclusive(R, rl, nm, where=d.where(f), detail=str(ex))
                continue
            if bad:
                rep.violates(R, rl, nm, where=d.where(f), scenario="bit %d of block %#x" % (bad[0], bad[1]), detail="returns %s" % bad[2])
            else:
                rep.holds(R, rl, nm, where=d.where(f), detail="5 block patterns x %d bit positions" % W)
    # assignment from another reference / from bool: the destination bit becomes the source's truth value, nothing else changes
    for f in refs:
        if f.get("name") != "operator=" or f.get("isImplicit"):
            continue
        ps = ir.params(f)
        if len(ps) != 1:
            continue
        pname = ps[0].get("name")
        from_ref = "xbitset_reference" in ir.qtype(ps[0])
        flab = "operator=(%s)" % ("bool" if not from_ref else ("self_type&&" if "&&" in ir.wtype(ps[0]) else "const self_type&"))
        if flab in done:
            continue
        done.add(flab)
        body = ir.body(f)
        calls = [n for n in ir.walk_expr(body) if this_call(n, {"assign"})]
        stores = [n for n in ir.walk_expr(body) if n.get("kind") in ("BinaryOperator", "CompoundAssignOperator") and n.get("opcode", "").endswith("=")
                  and n.get("opcode") not in ("==", "!=", "<=", ">=") and member_of_this(ir.ekids(n)[0], "m_block")]
        if calls and not stores:
            a = ir.sx(ir.ekids(calls[0])[1])
            src_ok = any(s_ == ("ref", pname) for s_ in ir.subterms(a))
            (rep.holds if src_ok else rep.violates)(R, rl, flab, where=d.where(calls[0]), **({"detail": "assign(<%s as bool>)" % pname} if src_ok else {"detail": "assign() is not given the source"}))
            continue
        if len(stores) != 1 or stores[0].get("opcode") not in ("=", "^=", "|=", "&="):
            # any other spelling (`reset(); if (rhs) set();`, a branch per truth value ...): the body is executed on small concrete models - the
            # destination and the source may be different blocks, different bits of one block, or THE SAME BIT (r = r2 with r2 a copy of r; the
            # identity step of a permutation) - and the destination bit must end up with the truth value the source had BEFORE the assignment
            verdict = bitref_assign_models(d, inst, refs, f, from_ref)
            if verdict is None:
                rep.inconclusive(R, rl, flab, where=d.where(f), detail="the body is not a sequence of stores to m_block, calls of set/reset/flip/assign and tests of the source")
            elif verdict is True:
                rep.holds(R, rl, flab, where=d.where(f), detail="executed on concrete models: other block, other bit of the same block, the same bit")
            else:
                rep.violates(R, rl, flab, where=d.where(f), scenario=verdict[0], detail=verdict[1])
            continue
        sop = stores[0].get("opcode")
        pts = list(range(W)) if W <= 16 else [0, 1, 7, 8, 31, 32, 33, W - 2, W - 1]
        bad = None
        try:
            for p_ in pts:
                for q_ in (pts if from_ref else [0]):
                    for own in (0, full, 0xAAAAAAAAAAAAAAAA & full):
                        for src in ((0, full, 1 << q_, full ^ (1 << q_)) if from_ref else (0, 1)):
                            ctx = ceval.Ctx(d, {} if from_ref else {ps[0].get("id"): src}, {"m_block": own, "m_mask": 1 << p_})
                            if from_ref:
                                ctx.objects = {pname: {"m_block": src, "m_mask": 1 << q_}}
                            rv = ceval.conv(ceval.ev(ir.ekids(stores[0])[1], ctx), inst.btype)
                            got = {"=": rv, "^=": own ^ rv, "|=": own | rv, "&=": own & rv}[sop]
                            truth = bool(src & (1 << q_)) if from_ref else bool(src)
                            want = (own | (1 << p_)) if truth else (own & ~(1 << p_) & full)
                            if got != want:
                                bad = (p_, q_, own, src, got, want)
                                raise StopIteration
        except StopIteration:
            pass
        except (ceval.Unknown, ceval.UB) as ex:
            rep.inconclusive(R, rl, flab, where=d.where(stores[0]), detail=str(ex))
            continue
        if bad:
            rep.violates(R, rl, flab, where=d.where(stores[0]), scenario="destination bit %d, source bit %d" % (bad[0], bad[1]),
                         detail="with destination block %#x and source block %#x the store yields %#x, expected %#x (the destination bit must take the truth value of the SOURCE bit)" % (
                             bad[2], bad[3], bad[4], bad[5]))
        else:
            rep.holds(R, rl, flab, where=d.where(stores[0]), detail="folded over %d x %d bit positions" % (len(pts), len(pts) if from_ref else 1))
    want_store = {"set": ("|=", lambda m: m), "reset": ("&=", lambda m: full ^ m), "flip": ("^=", lambda m: m)}
    for f in refs:
        nm = f.get("name")
        if nm in want_store and nm not in done:
            done.add(nm)
            stores = [n for n in ir.walk_expr(f) if n.get("kind") in ("CompoundAssignOperator", "BinaryOperator") and n.get("opcode", "").endswith("=")
                      and n.get("opcode") not in ("==", "!=", "<=", ">=")]
            op, eff = want_store[nm]
            if len(stores) != 1 or not member_of_this(ir.ekids(stores[0])[0], "m_block"):
                rep.inconclusive(R, rl, nm, where=d.where(f), detail="expected exactly one store to m_block")
                continue
            s = stores[0]
            if s.get("opcode") != op:
                rep.violates(R, rl, nm, where=d.where(s), detail="%s() stores with `%s`, expected `%s`" % (nm, s.get("opcode"), op))
                continue
            bad = None
            try:
                for p in range(W):
                    v = ceval.conv(ceval.ev(ir.ekids(s)[1], ceval.Ctx(d, {}, {"m_mask": 1 << p})), inst.btype)
                    if v != eff(1 << p):
                        bad = (p, v)
                        break
            except (ceval.Unknown, ceval.UB) as ex:
                rep.inconclusive(R, rl, nm, where=d.where(s), detail=str(ex))
                continue
            if bad:
                rep.violates(R, rl, nm, where=d.where(s), scenario="bit %d" % bad[0], detail="operand is %#x, expected %#x" % (bad[1], eff(1 << bad[0])))
            else:
                rep.holds(R, rl, nm, where=d.where(s), detail="m_block %s <%s mask> for every bit" % (op, "inverted" if nm == "reset" else "the"))


# ---------------------------------------------------------------------------------------------------------------------
# buffer element stores
def buffer_alias_locals(fn):
    """locals that point at the first block: `block_type* b = &m_buffer[0]` / m_buffer.data()"""
    out = set()
    for n in ir.walk_expr(fn):
        if n.get("kind") == "VarDecl" and ir.ekids(n) and "*" in ir.qtype(n):
            t = ir.sx(ir.ekids(n)[-1])
            if t in (("un", "&", ("index", ("mem", ("this",), "m_buffer"), ("lit", "0"))),
                     ("call", ("mem", ("mem", ("this",), "m_buffer"), "data"))):
                out.add(n.get("name"))
    return out


def elem_target(t, aliases):
    """sx term of a store target -> ('this'|<other object term>, index term | 'back' | 'front') or None"""
    if t[0] == "index":
        b = t[1]
        if b[0] == "mem" and b[2] == "m_buffer":
            return (b[1], t[2])
        if b[0] == "ref" and b[1] in aliases:
            return (("this",), t[2])
    if t[0] == "call" and t[1][0] == "mem" and t[1][2] in ("back", "front") and t[1][1][0] == "mem" and t[1][1][2] == "m_buffer":
        return (t[1][1][1], t[1][2])
    if t[0] == "un" and t[1] == "*" and t[2][0] == "ref" and t[2][1] in aliases:
        return (("this",), ("lit", "0"))
    return None


_CENV = {}          # parameter decl id -> constant argument, while a helper is analysed at one of its call sites


def is_zero(node, d):
    try:
        return ceval.ev(node, ceval.Ctx(d, dict(_CENV))) == 0
    except (ceval.Unknown, ceval.UB):
        return False


def const_value(node, d):
    try:
        return ceval.ev(node, ceval.Ctx(d, dict(_CENV)))
    except (ceval.Unknown, ceval.UB):
        return None


# ---------------------------------------------------------------------------------------------------------------------
# C03.canon - typestate
CLEAN, DIRTY, UNKNOWN = "clean", "dirty", "unknown"
SELF_CLEAN_MEMBERS = {"resize", "set", "reset", "flip", "push_back", "pop_back", "assign", "clear", "operator<<=", "operator>>=",
                      "operator&=", "operator|=", "operator^=", "swap"}
READ_ONLY_CALLS = {"size", "empty", "block_count", "count_extra_bits", "compute_block_count", "block_index", "bit_index", "bit_mask", "begin", "end",
                   "cbegin", "cend", "rbegin", "rend", "crbegin", "crend", "block_begin", "block_end", "data", "derived_cast", "max_size", "capacity",
                   "get_allocator", "all", "any", "none", "count", "at", "operator[]", "front", "back", "operator==", "operator!=", "reserve"}


def classify_store(node, d, inst, aliases, linit, shift_info):
    """-> (state change, reason) for a store event on a block of *this; None if it is not such a store"""
    k = node.get("kind")
    ks = ir.ekids(node)
    if not (k == "CompoundAssignOperator" or (k == "BinaryOperator" and node.get("opcode") == "=")):
        return None
    tgt = elem_target(ir.sx(ks[0]), aliases)
    if tgt is None or tgt[0] != ("this",):
        return None
    op = node.get("opcode")
    rhs_t = ir.sx(ks[1])
    if op == "&=":
        return (None, "&= only clears bits")
    if op == "=" and is_zero(ks[1], d):
        return (None, "stores 0")
    if op in ("|=", "^="):
        # single-bit operation at a valid position
        if rhs_t[0] == "call" and rhs_t[1] == ("mem", ("this",), "bit_mask") and tgt[1] == ("call", ("mem", ("this",), "block_index"), rhs_t[2]):
            return (None, "single-bit %s at pos (precondition pos < size())" % op)
        # blockwise combination with another bitset of the same size
        o = elem_target(rhs_t, set())
        if o is not None and o[0] != ("this",) and o[1] == tgt[1]:
            return (None, "blockwise %s with a canonical operand of the same size" % op)
        if op == "|=":
            return (DIRTY, "ORs `%s` into a block" % ir.show(rhs_t))
        return (UNKNOWN, "`%s` with `%s`" % (op, ir.show(rhs_t)))
    if op == "=":
        if any(s[0] == "un" and s[1] == "~" for s in ir.subterms(rhs_t)):
            return (DIRTY, "stores a complemented block")
        fl = shift_info.get(id(node))
        if fl is not None:
            return ((DIRTY, "moves bits towards higher positions") if fl == "up" else (None, "moves bits towards lower positions only"))
        return (UNKNOWN, "stores `%s`" % ir.show(rhs_t)[:60])
    return (UNKNOWN, "store with %s" % op)


def ctor_initial_state(d, inst, fn, W):
    """state established by a constructor's base/delegating initialiser"""
    inits = [c for c in ir.kids(fn) if c.get("kind") == "CXXCtorInitializer"]
    for ini in inits:
        if "baseInit" not in ini:
            continue
        bq = (ini["baseInit"].get("desugaredQualType") or "")
        ce = ir.strip(ir.ekids(ini)[0]) if ir.ekids(ini) else None
        if ce is None:
            continue
        if "xdynamic_bitset_base" not in bq:
            # delegating constructor (clang records it as a base-like initialiser of the class itself)
            return CLEAN, "delegates to another constructor of the class (verified separately)"
        args = [a for a in ir.ekids(ce) if a.get("kind") != "CXXDefaultArgExpr"]
        if len(args) == 1:
            return CLEAN, "copies another bitset base"
        if len(args) != 2:
            return UNKNOWN, "unrecognised base construction"
        storage, size = ir.strip(args[0]), args[1]
        size_t = ir.sx(size)
        mult = (size_t[0] == "bin" and size_t[1] == "*" and
                (const_value(ir.ekids(ir.strip(size))[1], d) == W or const_value(ir.ekids(ir.strip(size))[0], d) == W)) if ir.strip(size).get("kind") == "BinaryOperator" else False
        sargs = [a for a in ir.ekids(storage) if a.get("kind") != "CXXDefaultArgExpr"] if storage.get("kind") in ("CXXTemporaryObjectExpr", "CXXConstructExpr", "CXXFunctionalCastExpr") else None
        if sargs is None:
            return UNKNOWN, "storage built by `%s`" % d.text(storage)[:50]
        sq = ir.qtype(storage)
        if mult:
            return CLEAN, "size is a multiple of the block width"
        if const_value(size, d) == 0:
            return CLEAN, "size 0"
        if "span" in sq:
            return DIRTY, "adopts caller memory"
        if len(sargs) == 0 or (len(sargs) == 1 and "allocator" in ir.qtype(sargs[0])):
            return CLEAN, "empty storage"
        st = [ir.sx(a) for a in sargs]
        if len(sargs) >= 2 and trange.type_range(ir.qtype(sargs[0])) is not None:
            # (count, value[, alloc])
            v = const_value(sargs[1], d)
            if v == 0:
                return CLEAN, "filled with 0"
            return DIRTY, "filled with `%s`" % d.text(sargs[1])[:40]
        if len(sargs) >= 2 and st[0][0] == "call" and st[1][0] == "call" and st[0][1][0] == "mem" and st[1][1][0] == "mem" \
                and st[0][1][2] == "block_begin" and st[1][1][2] == "block_end" and st[0][1][1] == st[1][1][1] \
                and size_t == ("call", ("mem", st[0][1][1], "size")):
            return CLEAN, "copies all blocks and the size of a canonical bitset"
        return DIRTY, "copies foreign blocks `%s`" % d.text(storage)[:50]
    return CLEAN, "no base initialiser (defaulted)"


def rule_canon(rep, inst, shift_flows, R="C03.canon"):
    d, W = inst.d, inst.W
    from .. import fstring as fs_
    # non-public helpers that other members call are judged through their callers (they may rely on the caller to clean up afterwards)
    called_ids = set()
    for _, _, f_ in inst.fns:
        for x_ in ir.walk_expr(f_):
            if x_.get("kind") == "CXXMemberCallExpr":
                c_ = ir.strip(ir.ekids(x_)[0])
                if c_.get("kind") == "MemberExpr" and c_.get("referencedMemberDecl"):
                    called_ids.add(c_.get("referencedMemberDecl"))
    access_of = {}
    for _, _, f_ in inst.fns:
        cls_ = ir.enclosing_class(d, f_)
        if cls_ is not None and id(cls_) not in access_of:
            access_of[id(cls_)] = fs_.member_access(cls_)
    for cname, kind, fn in inst.fns:
        if cname not in CLASSES:
            continue
        nm = fn.get("name")
        lab = label(cname, kind, fn, inst)
        if nm == "zero_unused_bits":
            continue            # the cleaning primitive itself: C03.helpers decides its mask, C03.empty its access
        if nm == "xdynamic_bitset_base":
            continue            # member-wise helper constructor: callers are analysed
        if fn.get("isImplicit") or fn.get("explicitlyDefaulted"):
            continue            # member-wise copy/move of a canonical object
        cls_ = ir.enclosing_class(d, fn)
        acc_ = access_of.get(id(cls_), {}).get(fn.get("id"), "public") if cls_ is not None else "public"
        if acc_ != "public" and fn.get("kind") == "CXXMethodDecl" and fn.get("id") in called_ids and nm not in KNOWN_HELPER_NAMES:
            rep.note("%s is non-public: judged through its callers" % lab)
            continue
        is_ctor = fn.get("kind") == "CXXConstructorDecl"
        state0, why0 = (ctor_initial_state(d, inst, fn, W) if is_ctor else (CLEAN, "invariant at entry"))
        try:
            verdict, nev, npaths, _ = canon_analyse(d, inst, fn, state0, why0, shift_flows, 0)
        except cj.AnalysisBroken as e:
            rep.inconclusive(R, lab, "paths", where=d.where(fn), detail=str(e))
            continue
        if verdict is None:
            rep.holds(R, lab, "last block canonical at every exit", where=d.where(fn), detail="%d paths, %d block/size events; starts %s (%s)" % (npaths, nev, state0, why0),
                      nontrivial=nev > 0 or state0 != CLEAN)
        elif verdict[0] == DIRTY:
            rep.violates(R, lab, "last block canonical at every exit", where=d.where(verdict[2]),
                         detail="a path leaves the function with bits >= size() possibly set: %s, and no zero_unused_bits() follows" % verdict[1])
        else:
            rep.inconclusive(R, lab, "last block canonical at every exit", where=d.where(verdict[2]), detail="cannot classify: %s" % verdict[1])


KNOWN_HELPER_NAMES = set()


def canon_analyse(d, inst, fn, state0, why0, shift_flows, depth):
    """typestate of the last block along every path of fn entered in state0 -> (worst non-clean exit (state, why, node) or None, events, paths, exit states)"""
    W = inst.W
    if True:
        aliases = buffer_alias_locals(fn)
        linit, _ = locals_init(fn)
        paths = flow.function_paths(fn, with_ctor_inits=False)
        verdict = None
        nev = 0
        exits = set()
        for path in paths:
            state, why, at = state0, why0, fn
            multiple = False          # size known to be a multiple of the block width: there are no unused bits
            for st in path:
                if st[0] != "ev":
                    continue
                n = st[1]
                k = n.get("kind")
                if multiple and state == DIRTY:
                    state, why, at = CLEAN, "size is a multiple of the block width", n
                # cleaning
                if this_call(n, {"zero_unused_bits"}):
                    state, why, at = CLEAN, "zero_unused_bits()", n
                    nev += 1
                    continue
                tc = this_call(n)
                if tc is not None:
                    if tc in SELF_CLEAN_MEMBERS:
                        state, why, at = CLEAN, "%s() re-establishes the invariant (verified separately)" % tc, n
                        nev += 1
                        multiple = False
                        if tc == "resize" and len(ir.ekids(n)) >= 2:
                            a0 = ir.sx(ir.ekids(n)[1])
                            multiple = a0[0] == "bin" and a0[1] == "*" and (a0[2] in BPB or a0[3] in BPB)
                    elif tc not in READ_ONLY_CALLS:
                        c_ = ir.strip(ir.ekids(n)[0])
                        tgt_ = d.by_id.get(c_.get("referencedMemberDecl")) if c_.get("kind") == "MemberExpr" else None
                        if tgt_ is not None and ir.has_body(tgt_) and depth < 2:
                            # a helper of the class: its effect on the last block is what its own paths do, with its constant arguments known
                            saved = dict(_CENV)
                            for p_, a_ in zip(ir.params(tgt_), ir.ekids(n)[1:]):
                                try:
                                    _CENV[p_.get("id")] = ceval.ev(a_, ceval.Ctx(d, dict(saved)))
                                except (ceval.Unknown, ceval.UB):
                                    _CENV.pop(p_.get("id"), None)
                            try:
                                v_, ne_, _, ex_ = canon_analyse(d, inst, tgt_, state, why, shift_flows, depth + 1)
                            finally:
                                _CENV.clear()
                                _CENV.update(saved)
                            nev += ne_
                            if ex_ <= {CLEAN}:
                                state, why, at = CLEAN, "%s() leaves the last block canonical" % tc, n
                            elif DIRTY in ex_:
                                state, why, at = DIRTY, "%s(): %s" % (tc, v_[1] if v_ else "may set bits >= size()"), n
                            else:
                                state, why, at = UNKNOWN, "%s(): %s" % (tc, v_[1] if v_ else "effect unknown"), n
                        else:
                            state, why, at = UNKNOWN, "call to %s() whose effect on the blocks is not tabulated" % tc, n
                    continue
                cs = classify_store(n, d, inst, aliases, linit, shift_flows)
                if cs is not None:
                    nev += 1
                    if cs[0] is not None and not (state == DIRTY and cs[0] == UNKNOWN):
                        state, why, at = cs[0], cs[1], n
                    continue
                # m_size stores
                if k in ("BinaryOperator", "CompoundAssignOperator") and n.get("opcode", "").endswith("=") and n.get("opcode") not in ("==", "!=", "<=", ">=") \
                        and member_of_this(ir.ekids(n)[0], "m_size"):
                    nev += 1
                    if n.get("opcode") == "=" and const_value(ir.ekids(n)[1], d) == 0:
                        continue
                    state, why, at = DIRTY, "m_size changes (bits between the new and the old size may be set)", n
                    continue
                if k == "UnaryOperator" and n.get("opcode") in ("++", "--") and member_of_this(ir.ekids(n)[0], "m_size"):
                    nev += 1
                    state, why, at = DIRTY, "m_size changes (bits between the new and the old size may be set)", n
                    continue
                # whole-buffer calls
                t = ir.sx(n)
                if k == "CXXMemberCallExpr" and t[0] == "call" and t[1][0] == "mem" and t[1][1] == ("mem", ("this",), "m_buffer"):
                    m = t[1][2]
                    args = ir.ekids(n)[1:]
                    nev += 1
                    if m == "resize":
                        if len(args) >= 2 and not is_zero(args[1], d):
                            state, why, at = DIRTY, "buffer grown with fill value `%s`" % d.text(args[1])[:30], n
                        elif state == CLEAN:
                            state, why, at = DIRTY, "block count changes (the new last block may hold bits >= size)", n
                    elif m in ("pop_back",):
                        state, why, at = DIRTY, "last block dropped (the new last block is a full one)", n
                    elif m in ("clear", "reserve", "size", "begin", "end", "data", "back", "front", "max_size", "capacity", "get_allocator", "empty", "operator[]", "at", "cbegin", "cend"):
                        pass
                    else:
                        state, why, at = UNKNOWN, "m_buffer.%s()" % m, n
                    continue
                if k == "CallExpr" and t[0] == "call" and t[1][0] == "ref":
                    f = t[1][1]
                    args = ir.ekids(n)[1:]
                    touches = any(s == ("mem", ("this",), "m_buffer") for a in t[2:] for s in ir.subterms(a))
                    via_bits = any(s[0] == "call" and s[1] in (("mem", ("this",), "begin"), ("mem", ("this",), "end")) for a in t[2:] for s in ir.subterms(a)) or \
                        any(s == ("call", ("ref", "begin")) for a in t[2:] for s in ir.subterms(a))
                    if f in ("fill", "fill_n") and touches:
                        nev += 1
                        if not is_zero(args[-1], d):
                            state, why, at = DIRTY, "std::%s with `%s`" % (f, d.text(args[-1])[:30]), n
                    elif f in ("copy", "copy_n", "copy_backward", "move") and touches:
                        nev += 1
                        state, why, at = DIRTY, "std::%s of foreign blocks into the buffer" % f, n
                    elif f in ("any_of", "all_of", "none_of", "equal", "find", "find_if", "find_if_not", "count", "count_if", "accumulate", "mismatch", "distance",
                               "lexicographical_compare", "is_sorted", "min", "max") and touches:
                        nev += 1      # read-only algorithm over the blocks
                    elif f in ("transform", "generate", "generate_n", "for_each", "iota", "replace", "replace_if", "swap_ranges", "rotate", "reverse") and touches:
                        nev += 1
                        state, why, at = DIRTY, "std::%s rewrites the blocks with values that may have bits >= size() set" % f, n
                    elif f == "swap" and touches:
                        nev += 1      # swaps buffer with another bitset's; the matching size swap is C03.blocks' business
                    elif via_bits:
                        nev += 1      # writes through bit iterators touch single bits below size()
                    elif touches and re.search(r"\)\s*const", ir.qtype(fn)) and not any(x_.get("kind") == "CXXConstCastExpr" for x_ in ir.walk_expr(fn)):
                        nev += 1      # inside a const member the buffer is const: whatever is called can only read it
                    elif touches:
                        state, why, at = UNKNOWN, "call to %s on the buffer" % f, n
                    continue
            # exit obligation (normal exits only; an exception from an allocator leaves whatever the container guarantees)
            if path and path[-1][0] == "escape":
                continue
            if multiple and state == DIRTY:
                state = CLEAN
            exits.add(state)
            if state != CLEAN:
                # multiples of the block width need no cleaning: recognise `resize(k * bits_per_block)` style exits
                if verdict is None or (verdict[0] == UNKNOWN and state == DIRTY):
                    verdict = (state, why, at)
        return verdict, nev, len(paths), exits


# ---------------------------------------------------------------------------------------------------------------------
# C03.shift - bit-flow analysis of the two shift algorithms
def shift_analysis(rep, inst):
    """returns {id(store node): 'up'|'down'} for the block stores of operator<<= / operator>>=, and reports C03.shift"""
    d, W = inst.d, inst.W
    R = "C03.shift"
    flows = {}
    for opname, sign in (("operator<<=", 1), ("operator>>=", -1)):
        for fn in inst.find(opname, "xdynamic_bitset_base"):
            kind = [k for c, k, f in inst.fns if f is fn][0]
            lab = label("xdynamic_bitset_base", kind, fn, inst)
            aliases = buffer_alias_locals(fn)
            linit, assigned = locals_init(fn)
            pos = ir.params(fn)[0]
            names = {}
            for n in ir.walk_expr(fn):
                if n.get("kind") == "VarDecl":
                    names[n.get("name")] = n

            # symbol table: locals by role
            def role(init):
                t = ir.sx(init)
                if t[0] == "bin" and t[1] == "/" and t[2] == ("ref", pos.get("name")) and t[3] in BPB or t == ("call", ("mem", ("this",), "block_index"), ("ref", pos.get("name"))):
                    return Lin({"div": 1})
                if t == ("call", ("mem", ("this",), "bit_index"), ("ref", pos.get("name"))) or (t[0] == "bin" and t[1] == "%" and t[2] == ("ref", pos.get("name")) and t[3] in BPB):
                    return Lin({"r": 1})
                return None

            sym = {}
            for nm, vd in names.items():
                if vd.get("id") in linit:
                    r = role(linit[vd.get("id")])
                    if r is not None:
                        sym[nm] = r

            def symmap(t):
                return None

            def lin_of(t):
                """linear form over div, r, W, last, i(loop var), count"""
                if t in BPB:
                    return Lin({"W": 1})
                if t[0] == "ref":
                    if t[1] in sym:
                        return sym[t[1]]
                    vd = names.get(t[1])
                    if vd is not None and vd.get("id") in linit:
                        return lin_of(ir.sx(linit[vd.get("id")]))
                    if vd is not None:
                        return Lin({"i:" + t[1]: 1})
                    return None
                if t in BPB:
                    return Lin({"W": 1})
                if t == ("call", ("mem", ("this",), "block_count")) or t == ("call", ("mem", ("mem", ("this",), "m_buffer"), "size")):
                    return Lin({"last": 1, "": 1})
                if t[0] == "lit":
                    try:
                        v = int(str(t[1]))
                        return Lin({"": v}) if v else Lin()
                    except ValueError:
                        return None
                if t[0] == "cast":
                    return lin_of(t[3])
                if t[0] == "bin" and t[1] in ("+", "-"):
                    a, b = lin_of(t[2]), lin_of(t[3])
                    if a is None or b is None:
                        return None
                    return a + b if t[1] == "+" else a - b
                return None

            def lin_of_init(vd):
                return lin_of(ir.sx(ir.ekids(vd)[-1]))

            def timesW(l):
                out = Lin()
                for k, v in l.items():
                    if k == "":
                        out = out + Lin({"W": v})
                    elif k == "div":
                        out = out + Lin({"divW": v})
                    else:
                        return None
                return out

            want = Lin({"divW": sign, "r": sign})
            # guard: every path on which pos >= m_size holds (or is not excluded) must clear the bitset without moving blocks, and every
            # block store must sit on a path that established pos < m_size
            paths = flow.function_paths(fn, with_ctor_inits=False)
            lt0 = local_terms(fn)

            def gsym(t):
                c = canon(t, lt0)
                if c == M_SIZE:
                    return "S"
                if c == ("ref", pos.get("name")):
                    return "pos"
                return None
            g_bad = None
            saw_clear = False
            for path in paths:
                facts = []
                for st in path:
                    if st[0] == "cond":
                        c = canon(ir.sx(st[1]), lt0)
                        if c[0] == "bin" and c[1] in linear.NEG:
                            op = c[1] if st[2] else linear.NEG[c[1]]
                            l_, r_ = linear.lin(c[2], gsym), linear.lin(c[3], gsym)
                            if l_ is not None and r_ is not None:
                                facts += linear.atom_facts(op, l_, r_)
                evs = [st[1] for st in path if st[0] == "ev"]
                moves = [e for e in evs if classify_store(e, d, inst, aliases, linit, {}) is not None]
                ge = linear.entails(facts, Lin({"pos": 1, "S": -1}), ())          # pos >= size established
                lt_ = linear.entails(facts, Lin({"S": 1, "pos": -1, "": -1}), ())  # pos < size established
                if ge:
                    if moves or not any(this_call(e, {"reset"}) for e in evs):
                        g_bad = "on the path where pos >= size() the bitset is not simply cleared with reset()"
                    else:
                        saw_clear = True
                elif moves and not lt_:
                    g_bad = "blocks are moved on a path that did not establish pos < size()"
            if g_bad is None and not saw_clear:
                g_bad = "no path tests pos >= size() and clears the bitset"
            if g_bad is None:
                rep.holds(R, lab, "shift by >= size() clears", where=d.where(fn))
            else:
                rep.violates(R, lab, "shift by >= size() clears", where=d.where(fn), detail=g_bad)

            # stores with their loop context
            def loops_above(n):
                out = []
                p = d.parent_of(n)
                while p is not None and p is not fn:
                    if p.get("kind") in ("ForStmt", "WhileStmt"):
                        out.append(p)
                    p = d.parent_of(p)
                return out

            def norm_cond(c):
                """strip negations: (op, lhs, rhs) of a relational condition"""
                neg = False
                while c[0] == "un" and c[1] == "!":
                    c, neg = c[2], not neg
                while c[0] == "cast":
                    c = c[3]
                if c[0] != "bin" or c[1] not in linear.NEG:
                    return None
                op = linear.NEG[c[1]] if neg else c[1]
                return (op, c[2], c[3])

            loop_dir = {}

            def loop_range(fs):
                """ForStmt / WhileStmt -> (var name, lo Lin, hi Lin) for counting loops: `for (i = A; i < B; ++i)`, `i <= B`, `for (i = A; i > B; --i)`, and
                `T i = A; while (i > B) { ...; --i; }` (step as the last statement of the body)"""
                if fs.get("kind") == "WhileStmt":
                    raw2 = [c_ for c_ in fs.get("inner", []) if isinstance(c_, dict) and c_.get("kind")]
                    cnd = norm_cond(ir.sx(raw2[-2]))
                    body_ = raw2[-1]
                    stmts_ = ir.kids(body_) if body_.get("kind") == "CompoundStmt" else [body_]
                    if cnd is None or not stmts_:
                        return None
                    stp = ir.sx(stmts_[-1])
                    if stp[0] != "un" or stp[1] not in ("++", "--", "post++", "post--") or stp[2][0] != "ref":
                        return None
                    v = stp[2][1]
                    # the variable must not be modified elsewhere in the body
                    mods = [x for x in ir.walk_expr(body_) if x.get("kind") in ("UnaryOperator", "BinaryOperator", "CompoundAssignOperator") and
                            ((x.get("kind") == "UnaryOperator" and x.get("opcode") in ("++", "--")) or (x.get("opcode", "").endswith("=") and x.get("opcode") not in ("==", "!=", "<=", ">=")))
                            and ir.sx(ir.ekids(x)[0]) == ("ref", v)]
                    if len(mods) != 1:
                        return None
                    vd = names.get(v)
                    if vd is None or not ir.ekids(vd):
                        return None
                    a = lin_of_init(vd)
                    op, l_, r_ = cnd
                    if r_ == ("ref", v):
                        l_, r_ = r_, l_
                        op = {"<": ">", ">": "<", "<=": ">=", ">=": "<="}.get(op, op)
                    if l_ != ("ref", v) or a is None:
                        return None
                    bnd = lin_of(r_)
                    if bnd is None:
                        return None
                    loop_dir[fs.get("id")] = "up" if stp[1] in ("++", "post++") else "down"
                    if stp[1] in ("++", "post++") and op in ("<", "<="):
                        return (v, a, bnd - Lin({"": 1}) if op == "<" else bnd)
                    if stp[1] in ("--", "post--") and op in (">", ">="):
                        return (v, bnd + Lin({"": 1}) if op == ">" else bnd, a)
                    return None
                raw = fs.get("inner", [])
                init, cond, inc = raw[0], raw[2], raw[3]
                vds = [c for c in ir.kids(init) if c.get("kind") == "VarDecl"] if isinstance(init, dict) else []
                if len(vds) != 1 or not ir.ekids(vds[0]):
                    return None
                v = vds[0].get("name")
                a = lin_of(ir.sx(ir.ekids(vds[0])[-1]))
                c = ir.sx(cond)
                it = ir.sx(inc)
                if a is None or c[0] != "bin" or c[1] not in ("<", "<=", ">", ">=") or it[0] != "un" or it[2] != ("ref", v):
                    return None
                # `L(i) op R` with the loop variable occurring once, with coefficient 1, on the left (`i + div <= last` is `i <= last - div`)
                l_ = lin_of(c[2])
                b = lin_of(c[3])
                if l_ is None or b is None or l_.get("i:" + v, 0) != 1 or "i:" + v in b:
                    return None
                b = b - (l_ - Lin({"i:" + v: 1}))
                loop_dir[fs.get("id")] = "up" if it[1] in ("++", "post++") else "down"
                if it[1] in ("++", "post++") and c[1] in ("<", "<="):
                    return (v, a, b - Lin({"": 1}) if c[1] == "<" else b)
                if it[1] in ("--", "post--") and c[1] in (">", ">="):
                    return (v, b + Lin({"": 1}) if c[1] == ">" else b, a)
                return None

            stores = []
            for n in ir.walk_expr(fn):
                if n.get("kind") == "BinaryOperator" and n.get("opcode") == "=":
                    tgt = elem_target(ir.sx(ir.ekids(n)[0]), aliases)
                    if tgt is not None and tgt[0] == ("this",):
                        stores.append((n, tgt[1]))
            if not stores:
                rep.inconclusive(R, lab, "block moves", where=d.where(fn), detail="no block stores found (restructured algorithm?)")
                continue
            # blocks moved in bulk by a library algorithm over the buffer (std::copy_backward(b, b + k, b + n)): a shift in several passes - the
            # displacement of a single store is then only a part of the whole, and the single-pass argument below does not apply
            bulk = None
            for n in ir.walk_expr(fn):
                if n.get("kind") == "CallExpr":
                    t_ = ir.sx(n)
                    nm_ = str(t_[1][1]).split("::")[-1] if t_[0] == "call" and t_[1][0] == "ref" else ""
                    if nm_ in ("copy", "copy_backward", "move", "move_backward", "memmove", "memcpy", "rotate", "copy_n") and \
                            any((x_[0] == "ref" and x_[1] in aliases) or x_ == ("mem", ("this",), "m_buffer") for a_ in t_[2:] for x_ in ir.subterms(a_) if isinstance(x_, tuple)):
                        bulk = n
                        break
            if bulk is not None:
                rep.inconclusive(R, lab, "block moves", where=d.where(bulk),
                                 detail="whole blocks are moved by `%s` and the remaining bits in another pass: the displacement of the passes composes, which the "
                                        "single-pass analysis does not follow" % d.text(bulk)[:50])
                for n, _ in stores:
                    flows[id(n)] = "up" if sign > 0 else "down"          # for the typestate: a left shift may set unused bits, a right shift cannot
                continue
            facts_global = [Lin({"div": 1}), Lin({"last": 1, "div": -1}), Lin({"r": 1})]     # div >= 0, div <= last (pos < size), r >= 0
            nonneg = ("div", "last", "r", "W", "divW")
            # which r-branch is each store in?  (r != 0 -> sub-block path, else whole-block path)
            segs = {}
            for n, tidx in stores:
                T = lin_of(tidx)
                where = d.where(n)
                txt = d.text(n)[:60].replace("\n", " ")
                if T is None:
                    rep.inconclusive(R, lab, "store `%s`" % txt, where=where, detail="target index is not linear in the loop variable, div and last")
                    continue
                lr = [loop_range(l) for l in loops_above(n)]
                if any(x is None for x in lr):
                    rep.inconclusive(R, lab, "store `%s`" % txt, where=where, detail="enclosing loop is not a simple counting loop")
                    continue
                facts = list(facts_global)
                for v, lo, hi in lr:
                    facts.append(Lin({"i:" + v: 1}) - lo)
                    facts.append(hi - Lin({"i:" + v: 1}))
                # in-place order: the loop moves blocks inside one buffer, so a block must be read as a source before an earlier iteration's
                # store can have reached it - ascending loops may only store at or below what later iterations read, descending ones at or above
                la = loops_above(n)
                if la and la[0].get("id") in loop_dir:
                    lp = la[0]
                    up = loop_dir[lp.get("id")] == "up"
                    hazard = None
                    for x in ir.walk_expr(lp):
                        if x.get("kind") not in ("CXXOperatorCallExpr", "ArraySubscriptExpr", "UnaryOperator"):
                            continue
                        par = d.parent_of(x)
                        if par is not None and par.get("kind") == "BinaryOperator" and par.get("opcode") == "=" and ir.ekids(par)[0] is x:
                            continue          # the store itself
                        e = elem_target(ir.sx(x), aliases)
                        if e is None or e[0] != ("this",):
                            continue
                        Sx = lin_of(e[1])
                        if Sx is None:
                            continue
                        dlt = T - Sx
                        if any(k_.startswith("i:") for k_ in dlt):
                            continue
                        gap = dlt if up else -dlt               # > 0: a later iteration reads what this one wrote
                        if linear.entails(facts_global, -gap, nonneg):
                            continue
                        if linear.entails(facts_global, gap, nonneg) and (set(gap) - {""}):
                            hazard = (x, gap)
                            break
                        if not (set(gap) - {""}) and gap.const() > 0:
                            hazard = (x, gap)
                            break
                    if hazard:
                        rep.violates(R, lab, "store `%s`" % txt, where=where, scenario="%s loop, block distance %s" % ("ascending" if up else "descending", hazard[1].show()),
                                     detail="the loop runs %s and stores block `%s` which a later iteration reads as a source through `%s`: whenever that distance is "
                                            "positive the source has already been overwritten (an in-place move must run away from its sources)" % (
                                                "upwards" if up else "downwards", T.show(), d.text(hazard[0])[:30]))
                        flows[id(n)] = "up"
                        continue
                # terms of the stored value
                terms = []

                def collect(t, shift):
                    if t[0] == "bin" and t[1] == "|":
                        collect(t[2], shift)
                        collect(t[3], shift)
                        return
                    if t[0] == "cast":
                        collect(t[3], shift)
                        return
                    if t[0] == "bin" and t[1] in ("<<", ">>") and shift is None:
                        k = lin_of(t[3])
                        collect(t[2], (1 if t[1] == "<<" else -1, k))
                        return
                    e = elem_target(t, aliases)
                    if e is not None and e[0] == ("this",):
                        terms.append((lin_of(e[1]), shift))
                        return
                    terms.append((None, t))
                collect(ir.sx(ir.ekids(n)[1]), None)
                ok = True
                direction = "down"
                for S, sh in terms:
                    if S is None:
                        rep.inconclusive(R, lab, "store `%s`" % txt, where=where, detail="value term `%s` is not a (shifted) block" % (ir.show(sh) if isinstance(sh, tuple) else sh))
                        ok = False
                        continue
                    delta_blocks = T - S
                    dl = Lin(delta_blocks)
                    for kk in list(dl):
                        if kk.startswith("i:"):
                            ok = False
                    if not ok:
                        rep.violates(R, lab, "store `%s`" % txt, where=where, detail="source and target block indices do not move together with the loop variable")
                        break
                    dW = timesW(dl)
                    if dW is None:
                        rep.inconclusive(R, lab, "store `%s`" % txt, where=where, detail="block distance `%s` is not of the form a*div + b" % dl.show())
                        ok = False
                        break
                    if sh is not None:
                        if sh[1] is None:
                            rep.inconclusive(R, lab, "store `%s`" % txt, where=where, detail="shift amount is not linear in r and the block width")
                            ok = False
                            break
                        amt = sh[1]
                        dW = dW + (amt if sh[0] > 0 else -amt)
                    # whole-block branch: r is 0 there
                    in_r0 = r_branch(d, n, fn, sym) is False
                    cmp_want = Lin(want)
                    if in_r0:
                        dW = Lin({k: v for k, v in dW.items() if k != "r"})
                        cmp_want = Lin({k: v for k, v in cmp_want.items() if k != "r"})
                    if dW != cmp_want:
                        rep.violates(R, lab, "store `%s`" % txt, where=where, scenario="term b[%s]%s" % (S.show(), "" if sh is None else (" << " if sh[0] > 0 else " >> ") + sh[1].show()),
                                     detail="this term moves bits by %s positions, but %s by `pos` must move every bit by %s (= %spos)" % (
                                         dW.show(), opname, cmp_want.show(), "+" if sign > 0 else "-"))
                        ok = False
                        break
                    # index range of the source
                    for what, idx in (("source", S), ("target", T)):
                        lo_ok = linear.entails(facts, idx, nonneg)
                        hi_ok = linear.entails(facts, Lin({"last": 1}) - idx, nonneg)
                        if not (lo_ok and hi_ok):
                            rep.violates(R, lab, "store `%s`" % txt, where=where, scenario="%s index %s" % (what, idx.show()),
                                         detail="%s block index `%s` is not provably inside [0, last] under the loop bounds" % (what, idx.show()))
                            ok = False
                            break
                    if not ok:
                        break
                if ok and terms:
                    rep.holds(R, lab, "store `%s`" % txt, where=where, detail="%d term(s), each displaced by %s" % (len(terms), want.show()))
                    flows[id(n)] = "up" if sign > 0 else "down"
                    rb = r_branch(d, n, fn, sym)
                    if lr:
                        v, lo, hi = lr[0]
                        a = Lin(T); b = Lin(T)
                        a = Lin({k: vv for k, vv in a.items() if k != "i:" + v}) + lo
                        b = Lin({k: vv for k, vv in b.items() if k != "i:" + v}) + hi
                        segs.setdefault(rb, []).append((a, b))
                    else:
                        segs.setdefault(rb, []).append((T, T))
                elif not ok:
                    flows[id(n)] = "up"      # treat as dirtying for the typestate
            # zero fill of the vacated blocks
            fills = []
            for n in ir.walk_expr(fn):
                if n.get("kind") == "CallExpr":
                    t = ir.sx(n)
                    if t[0] == "call" and t[1] == ("ref", "fill_n") and len(t) == 5:
                        start, cnt, val = t[2], t[3], ir.ekids(n)[3]
                        st = None
                        if start == ("call", ("mem", ("mem", ("this",), "m_buffer"), "begin")):
                            st = Lin()
                        elif start[0] == "bin" and start[1] == "+" and start[2] == ("call", ("mem", ("mem", ("this",), "m_buffer"), "begin")):
                            st = lin_of(start[3])
                        c = lin_of(cnt)
                        if st is None or c is None or not is_zero(val, d):
                            rep.violates(R, lab, "zero fill", where=d.where(n), detail="vacated blocks are not filled with 0 over a linear range: `%s`" % d.text(n)[:70])
                        else:
                            fills.append((st, st + c - Lin({"": 1})))
            if not fills:
                rep.violates(R, lab, "zero fill", where=d.where(fn), detail="no std::fill_n(<m_buffer.begin()...>, div, 0) for the vacated blocks")
            # coverage per r-branch: moved targets + fill = [0, last]
            for rb in (True, False):
                sg = segs.get(rb, []) + segs.get(None, []) + fills
                if not segs.get(rb) and not segs.get(None):
                    rep.inconclusive(R, lab, "coverage (%s)" % ("sub-block path" if rb else "whole-block path"), where=d.where(fn), detail="no stores attributed to this branch")
                    continue
                good = False
                for perm in itertools.permutations(sg):
                    if perm[0][0] != Lin() or perm[-1][1] != Lin({"last": 1}):
                        continue
                    if all(perm[i + 1][0] == perm[i][1] + Lin({"": 1}) for i in range(len(perm) - 1)):
                        good = True
                        break
                desc = ", ".join("[%s .. %s]" % (a.show(), b.show()) for a, b in sg)
                if good:
                    rep.holds(R, lab, "coverage (%s)" % ("sub-block path" if rb else "whole-block path"), where=d.where(fn), detail="written blocks %s tile [0, last]" % desc)
                else:
                    rep.violates(R, lab, "coverage (%s)" % ("sub-block path" if rb else "whole-block path"), where=d.where(fn),
                                 detail="written block ranges %s do not tile [0, last] exactly" % desc)
    return flows


def r_branch(d, n, fn, sym):
    """is node n inside the `r != 0` branch (True), its else branch (False), or neither (None)?"""
    rnames = {k for k, v in sym.items() if v == Lin({"r": 1})}
    p, child = d.parent_of(n), n
    while p is not None and p is not fn:
        if p.get("kind") == "IfStmt":
            raw = [c for c in p.get("inner", []) if isinstance(c, dict) and c.get("kind")]
            c = ir.sx(raw[0])
            pol = None
            if c[0] == "bin" and c[2][0] == "ref" and c[2][1] in rnames and c[3] == ("lit", "0"):
                pol = {"!=": True, ">": True, "==": False}.get(c[1])
            elif c[0] == "ref" and c[1] in rnames:
                pol = True
            if pol is not None:
                if child is raw[1]:
                    return pol
                if len(raw) > 2 and child is raw[2]:
                    return not pol
        child, p = p, d.parent_of(p)
    return None


# ---------------------------------------------------------------------------------------------------------------------
# C03.at / C03.empty
def path_facts(path_prefix, fn, d, linit):
    """linear facts over the symbols m_size and the parameters from the branch atoms of a path prefix (on canonical terms); plus the flag
    `nonempty` (m_size >= 1 established: m_size != 0, empty() false, or bit_index(m_size) != 0)"""
    pnames = {p.get("name") for p in ir.params(fn)}
    lt = local_terms(fn)
    EXTRA = ("call", ("mem", ("this",), "bit_index"), M_SIZE)

    def symmap(t):
        if t == M_SIZE:
            return "m_size"
        if t[0] == "ref" and t[1] in pnames:
            return "p:" + t[1]
        return None
    facts = []
    nonempty = False
    for st in path_prefix:
        if st[0] != "cond":
            continue
        val = st[2]
        t = canon(ir.sx(st[1]), lt)
        if t == ("call", ("mem", ("this",), "empty")):
            if not val:
                nonempty = True
            continue
        if t == EXTRA and val:
            nonempty = True
            continue
        if t[0] == "bin" and t[1] in linear.NEG:
            op = t[1] if val else linear.NEG[t[1]]
            sides = (t[2], t[3])
            if EXTRA in sides:
                other = sides[1] if sides[0] == EXTRA else sides[0]
                flipped = sides[1] == EXTRA
                if other in (("lit", "0"), ("lit", 0)) and (op == "!=" or (op == ">" and not flipped) or (op == "<" and flipped)):
                    nonempty = True
                continue
            a_, b_ = linear.lin(t[2], symmap), linear.lin(t[3], symmap)
            if a_ is not None and b_ is not None:
                facts += linear.atom_facts(op, a_, b_)
    if linear.entails(facts, Lin({"m_size": 1, "": -1}), ("m_size",) + tuple("p:" + p for p in pnames)):
        nonempty = True
    return facts, nonempty, pnames


def rule_at(rep, inst):
    """at(i) summarised symbolically (sa/checkfn.py): every path through the helpers it calls ends in a throw of std::out_of_range whose conditions
    entail i >= size(), or in a return whose conditions entail i < size()"""
    from .. import checkfn
    d = inst.d
    R = "C03.at"
    for fn in inst.find("at", "xdynamic_bitset_base"):
        kind = [k for c, k, f in inst.fns if f is fn][0]
        lab = label("xdynamic_bitset_base", kind, fn, inst)
        # what size() returns, as one observable
        sz = None
        for g in inst.find("size", "xdynamic_bitset_base"):
            try:
                o_ = checkfn.summarise(d, g, [])[0]
                if len(o_) == 1 and o_[0][1][0] == "ret" and o_[0][1][1] is not None and len(o_[0][1][1]) == 1:
                    sz = o_[0][1][1]
            except checkfn.Undecided:
                pass
        if sz is None:
            sz = Lin({"m_size": 1})
        I = Lin({"i": 1})
        try:
            outs, sm = checkfn.summarise(d, fn, [I])
        except checkfn.Undecided as e:
            rep.inconclusive(R, lab, "throws exactly when i >= size()", where=d.where(fn), detail=str(e))
            continue
        # the member m_size read directly and size() are the same quantity
        def canon_(l_):
            out = Lin()
            for k_, v_ in l_.items():
                key = list(sz)[0] if k_ in ("m_size", "this->m_size", "size()") else k_
                out = out + Lin({key: v_})
            return out
        nonneg = ("i",) + tuple(sz)
        bad = None
        nthrow = nret = 0
        for facts, end in outs:
            facts = [canon_(f_) for f_ in facts]
            if linear.entails(facts, Lin({"": -1}), nonneg):
                continue
            if end[0] == "throw":
                nthrow += 1
                if "out_of_range" not in end[1]:
                    bad = "throws %s, expected std::out_of_range" % end[1]
                elif not linear.entails(facts, I - sz, nonneg):
                    bad = "a path throws although i >= size() is not established"
            elif end[0] == "noreturn":
                bad = "a path ends in %s() instead of throwing std::out_of_range" % end[1]
            else:
                nret += 1
                if not linear.entails(facts, sz - I - Lin({"": 1}), nonneg):
                    bad = "a path returns an element without having established i < size()"
        if not bad and not nthrow:
            bad = "never throws"
        if bad:
            rep.violates(R, lab, "throws exactly when i >= size()", where=d.where(fn), detail=bad)
        else:
            rep.holds(R, lab, "throws exactly when i >= size()", where=d.where(fn), detail="%d throwing and %d returning paths%s" % (
                nthrow, nret, (", through %s" % ", ".join(sorted(set(sm.followed)))) if sm.followed else ""))


def rule_empty(rep, inst):
    d = inst.d
    R = "C03.empty"
    for cname, kind, fn in inst.fns:
        if cname not in CLASSES:
            continue
        aliases = buffer_alias_locals(fn)
        linit, _ = locals_init(fn)
        lab = label(cname, kind, fn, inst)
        try:
            paths = flow.function_paths(fn, with_ctor_inits=False, events=lambda n: n.get("kind") in ("ArraySubscriptExpr", "UnaryOperator"))
        except cj.AnalysisBroken:
            continue
        seen = {}
        for path in paths:
            for i, st in enumerate(path):
                if st[0] not in ("ev",):
                    continue
                n = st[1]
                t = ir.sx(n)
                tgt = elem_target(t, set())       # direct m_buffer[...] / back() / front() only
                if tgt is None or tgt[0] != ("this",):
                    continue
                risky = tgt[1] in ("back", "front") or (isinstance(tgt[1], tuple) and tgt[1] == ("lit", "0"))
                dec = None
                if isinstance(tgt[1], tuple) and tgt[1][0] == "bin" and tgt[1][1] == "-" and tgt[1][3] == ("lit", "1"):
                    risky = True      # index `count - 1`
                if not risky:
                    continue
                facts, nonempty, pn = path_facts(path[:i], fn, d, linit)
                key = id(n)
                ok = nonempty
                if not ok and isinstance(tgt[1], tuple) and tgt[1][0] == "bin" and tgt[1][1] == "-" and tgt[1][2][0] == "ref":
                    # `m_buffer[v - 1]` under a dominating `v > 0` / `v != 0` (a count-down loop): the index cannot wrap whatever the size is
                    from .. import norm as norm_
                    v_ = tgt[1][2]
                    for st2 in path[:i]:
                        if st2[0] == "cond":
                            c2 = norm_.norm_cmp(ir.sx(st2[1]), lambda x: x == v_)
                            if c2 is None:
                                if norm_.uncast(ir.sx(st2[1])) == v_ and st2[2]:
                                    ok = True
                                continue
                            op2 = c2[0] if st2[2] else norm_.NEGOP[c2[0]]
                            k2 = norm_.int_of(c2[2])
                            if k2 is not None and ((op2 == ">" and k2 >= 0) or (op2 == "!=" and k2 == 0) or (op2 == ">=" and k2 >= 1)):
                                ok = True
                seen[key] = (n, seen.get(key, (None, True))[1] and ok)
        for key, (n, ok) in seen.items():
            txt = d.text(n)[:50]
            if ok:
                rep.holds(R, lab, "`%s`" % txt, where=d.where(n), detail="a non-emptiness fact dominates the access on every path")
            else:
                rep.violates(R, lab, "`%s`" % txt, where=d.where(n),
                             detail="element access on a buffer that may be empty: no test establishing size() != 0 dominates it on some path")


# ---------------------------------------------------------------------------------------------------------------------
# C03.blocks - block count agrees with ceil(size / W) wherever both are set
def rule_blocks(rep, inst, R="C03.blocks"):
    d = inst.d

    def is_cbc(t, size_t):
        """t == compute_block_count(size_t) or integer_ceil(size_t, W)"""
        if t[0] == "cast":
            return is_cbc(t[3], size_t)
        if t[0] != "call":
            return False
        callee = t[1]
        nm = callee[2] if callee[0] == "mem" else callee[1]
        if nm == "compute_block_count" and len(t) == 3:
            return t[2] == size_t
        if nm == "integer_ceil" and len(t) == 4:
            return t[2] == size_t and t[3] in (("mem", ("this",), "s_bits_per_block"), ("ref", "s_bits_per_block"))
        return False

    for cname, kind, fn in inst.fns:
        if cname not in ("xdynamic_bitset", "xdynamic_bitset_view"):
            continue
        lab = label(cname, kind, fn, inst)
        linit, _ = locals_init(fn)

        def subst(t):
            if t[0] == "ref":
                for n in ir.walk_expr(fn):
                    if n.get("kind") == "VarDecl" and n.get("name") == t[1] and n.get("id") in linit:
                        return subst(ir.sx(linit[n.get("id")]))
                return t
            if isinstance(t, tuple):
                return tuple(subst(x) if isinstance(x, tuple) else x for x in t)
            return t

        if fn.get("kind") == "CXXConstructorDecl":
            for ini in [c for c in ir.kids(fn) if c.get("kind") == "CXXCtorInitializer" and "baseInit" in c]:
                if "xdynamic_bitset_base" not in (ini["baseInit"].get("desugaredQualType") or ""):
                    continue
                ce = ir.strip(ir.ekids(ini)[0])
                args = [a for a in ir.ekids(ce) if a.get("kind") != "CXXDefaultArgExpr"]
                if len(args) != 2:
                    continue
                storage, size = ir.strip(args[0]), ir.sx(args[1])
                sargs = [a for a in ir.ekids(storage) if a.get("kind") != "CXXDefaultArgExpr"]
                st = [ir.sx(a) for a in sargs]
                sq = ir.qtype(storage)
                cnt = None
                if "span" in sq and len(st) == 2:
                    cnt = st[1]
                elif len(sargs) >= 2 and trange.type_range(ir.qtype(sargs[0])) is not None:
                    cnt = st[0]
                if cnt is None:
                    # empty / iterator-range storages: size must be 0 / distance * W / the source's size
                    if len(sargs) == 0 or (len(sargs) == 1 and "allocator" in ir.qtype(sargs[0])):
                        ok = const_value(args[1], d) == 0
                        (rep.holds if ok else rep.violates)(R, lab, "empty storage has size 0", where=d.where(ini), **({} if ok else {"detail": "size `%s` with an empty buffer" % ir.show(size)}))
                    elif len(st) >= 2 and st[0][0] == "call" and st[0][1][0] == "mem" and st[0][1][2] == "block_begin" and st[1][1][2] == "block_end":
                        ok = size == ("call", ("mem", st[0][1][1], "size")) and st[0][1][1] == st[1][1][1]
                        (rep.holds if ok else rep.violates)(R, lab, "copy takes blocks and size from the same source", where=d.where(ini),
                                                            **({} if ok else {"detail": "blocks from `%s`..`%s`, size `%s`" % (ir.show(st[0]), ir.show(st[1]), ir.show(size))}))
                    elif len(st) >= 2:
                        # block iterator range: size = distance(first, last) * W
                        want = ("bin", "*", ("cast", "NoOp", "unsigned long", ("call", ("ref", "distance"), st[0], st[1])), ("ref", "s_bits_per_block"))
                        got = size
                        ok = (got[0] == "bin" and got[1] == "*" and any(s == ("call", ("ref", "distance"), st[0], st[1]) for s in ir.subterms(got[2]))
                              and const_value(ir.ekids(ir.strip(args[1]))[1], d) == inst.W)
                        (rep.holds if ok else rep.violates)(R, lab, "block range gives distance * bits_per_block bits", where=d.where(ini),
                                                            **({} if ok else {"detail": "size `%s`" % ir.show(size)}))
                    continue
                ok = is_cbc(cnt, size)
                if ok:
                    rep.holds(R, lab, "block count = ceil(size / W)", where=d.where(ini), detail="count `%s`, size `%s`" % (ir.show(cnt), ir.show(size)))
                else:
                    rep.violates(R, lab, "block count = ceil(size / W)", where=d.where(ini),
                                 detail="the buffer gets `%s` blocks for `%s` bits; expected compute_block_count/integer_ceil of that same size" % (ir.show(cnt), ir.show(size)))
            continue
        # mutators that store m_size
        size_stores = []
        for n in ir.walk_expr(fn):
            k = n.get("kind")
            if k == "BinaryOperator" and n.get("opcode") == "=" and member_of_this(ir.ekids(n)[0], "m_size"):
                size_stores.append((n, ir.sx(ir.ekids(n)[1])))
            elif k == "UnaryOperator" and n.get("opcode") in ("--", "++") and member_of_this(ir.ekids(n)[0], "m_size"):
                size_stores.append((n, ("bin", "-" if n.get("opcode") == "--" else "+", ("mem", ("this",), "m_size"), ("lit", "1"))))
        if not size_stores:
            continue
        if len(size_stores) != 1:
            rep.inconclusive(R, lab, "size/block agreement", where=d.where(fn), detail="several stores to m_size")
            continue
        sn, size = size_stores[0]
        if size == ("lit", "0") or const_value(ir.ekids(sn)[1] if sn.get("kind") == "BinaryOperator" else sn, d) == 0:
            cl = [n for n in ir.walk_expr(fn) if n.get("kind") == "CXXMemberCallExpr" and ir.sx(n) == ("call", ("mem", ("mem", ("this",), "m_buffer"), "clear"))]
            (rep.holds if cl else rep.violates)(R, lab, "size 0 with cleared buffer", where=d.where(sn), **({} if cl else {"detail": "m_size = 0 without m_buffer.clear()"}))
            continue
        # path-wise: the block count at exit must equal ceil(new size / W).  Symbols: old = block count at entry (= ceil(old size / W) by the
        # invariant), new = any term that is compute_block_count(<new size>) after canonicalisation (locals substituted, accessor spellings unified).
        lt = local_terms(fn)
        size = canon(size, lt)

        def symmap(t):
            c = canon(t, lt)
            if is_cbc(c, size):
                return "new"
            if c == N_BLOCKS:
                return "old"
            return None
        has_new = any(symmap(ir.sx(n)) == "new" for n in ir.walk_expr(fn) if n.get("kind") in ("CXXMemberCallExpr", "CallExpr", "DeclRefExpr"))
        if not has_new:
            rep.violates(R, lab, "block count = ceil(size / W)", where=d.where(sn),
                         detail="m_size becomes `%s` but no block count is computed as compute_block_count of that size" % ir.show(size))
            continue
        shrink_by_one = size == ("bin", "-", ("mem", ("this",), "m_size"), ("lit", "1"))
        bad = None
        paths = flow.function_paths(fn, with_ctor_inits=False)
        for path in paths:
            facts = []
            count = Lin({"old": 1})
            neq = False
            for st in path:
                if st[0] == "cond":
                    t = ir.sx(st[1])
                    if t[0] == "bin" and t[1] in linear.NEG:
                        op = t[1] if st[2] else linear.NEG[t[1]]
                        a_, b_ = linear.lin(t[2], symmap), linear.lin(t[3], symmap)
                        if a_ is not None and b_ is not None:
                            facts += linear.atom_facts(op, a_, b_)
                            if op == "!=" and set(a_) | set(b_) <= {"new", "old"}:
                                neq = True
                if st[0] == "ev" and st[1].get("kind") == "CXXMemberCallExpr":
                    t = ir.sx(st[1])
                    if t[0] == "call" and t[1][0] == "mem" and t[1][1] == ("mem", ("this",), "m_buffer"):
                        if t[1][2] == "resize":
                            c_ = linear.lin(t[2], symmap)
                            if c_ is None:
                                bad = (st[1], "m_buffer.resize(`%s`): not the computed block count" % ir.show(t[2]))
                                break
                            count = c_
                        elif t[1][2] == "pop_back":
                            count = count - Lin({"": 1})
                        elif t[1][2] == "clear":
                            count = Lin()
            if bad:
                break
            if shrink_by_one:
                facts += [Lin({"old": 1, "new": -1}), Lin({"new": 1, "old": -1, "": 1})]       # old - 1 <= new <= old
                if neq:
                    facts.append(Lin({"old": 1, "new": -1, "": -1}))                            # new != old and new <= old
            goal1, goal2 = count - Lin({"new": 1}), Lin({"new": 1}) - count
            if not (linear.entails(facts, goal1, ()) and linear.entails(facts, goal2, ())):
                conds = "; ".join("%s is %s" % (d.text(st[1])[:40], st[2]) for st in path if st[0] == "cond" and ("block_count" in d.text(st[1]) or "count" in d.text(st[1])))
                bad = (fn, "on the path where %s the buffer ends with `%s` blocks, which is not provably compute_block_count(%s): blocks and size fall out of step "
                           "(stale blocks stay behind, block_count()/count()/== see them)" % (conds or "no guard holds", count.show(), ir.show(size)))
                break
        if bad:
            rep.violates(R, lab, "block count = ceil(size / W)", where=d.where(bad[0]), detail=bad[1])
        else:
            rep.holds(R, lab, "block count = ceil(size / W)", where=d.where(fn), detail="%d paths; size becomes `%s`" % (len(paths), ir.show(size)))


# ---------------------------------------------------------------------------------------------------------------------
# C03.cover - whole-buffer loops visit every block exactly once
def bitref_assign_models(d, inst, refs, f, from_ref):
    """operator=(rhs) of the bit reference executed concretely.  -> True | (scenario, text) | None (not interpretable)"""
    W, full = inst.W, inst.full
    members = {m.get("name"): m for m in refs if m.get("name") in ("set", "reset", "flip", "assign") and ir.body(m) is not None}
    pname = ir.params(f)[0].get("name")
    pid = ir.params(f)[0].get("id")

    class Stop(Exception):
        pass

    def truth_of(obj, blocks):
        return 1 if blocks[obj[0]] & obj[1] else 0

    def ev_expr(n, obj, blocks, env, rhs):
        """integer value of an expression inside a member of the reference `obj`"""
        n0 = ir.strip(n)
        while n0.get("kind") in ("CXXFunctionalCastExpr", "CXXStaticCastExpr", "CStyleCastExpr", "ImplicitCastExpr", "ParenExpr") and ir.ekids(n0):
            inner = ir.strip(ir.ekids(n0)[-1])
            if n0.get("castKind") in ("UserDefinedConversion",) or inner.get("kind") == "CXXMemberCallExpr":
                n0 = inner
                continue
            break
        # the source converted to bool / negated: its truth value NOW
        if n0.get("kind") == "CXXMemberCallExpr" and rhs is not None:
            c_ = ir.strip(ir.ekids(n0)[0])
            base = ir.strip(ir.ekids(c_)[0]) if c_.get("kind") == "MemberExpr" and ir.ekids(c_) else None
            if base is not None and base.get("kind") == "DeclRefExpr" and (base.get("referencedDecl") or {}).get("id") == pid:
                nm_ = c_.get("name") or ""
                if nm_.startswith("operator bool"):
                    return truth_of(rhs, blocks)
                if nm_ in ("operator~", "operator!"):
                    return 1 - truth_of(rhs, blocks)
                raise ceval.Unknown("member %s of the source" % nm_)
        if n0.get("kind") == "CXXOperatorCallExpr" and rhs is not None:
            t_ = ir.sx(n0)
            if t_[0] == "un" and t_[1] in ("~", "!") and t_[2] == ("ref", pname):
                return 1 - truth_of(rhs, blocks)
        if n0.get("kind") == "UnaryOperator" and n0.get("opcode") == "!":
            return 0 if ev_expr(ir.ekids(n0)[0], obj, blocks, env, rhs) else 1
        ctx = ceval.Ctx(d, dict(env), {"m_block": blocks[obj[0]], "m_mask": obj[1]})
        if rhs is not None:
            ctx.objects = {pname: {"m_block": blocks[rhs[0]], "m_mask": rhs[1]}}
        return ceval.ev(n, ctx)

    def run(fn, obj, blocks, env, rhs, depth=0):
        if depth > 3:
            raise ceval.Unknown("depth")

        def stmts(ss):
            for st in ss:
                k = st.get("kind")
                if k == "CompoundStmt":
                    stmts(ir.kids(st))
                    continue
                if k == "ReturnStmt" or k == "NullStmt":
                    if k == "ReturnStmt":
                        raise Stop()
                    continue
                if k == "IfStmt":
                    raw = [c for c in st.get("inner", []) if isinstance(c, dict) and c.get("kind")]
                    if ev_expr(raw[0], obj, blocks, env, rhs):
                        stmts([raw[1]])
                    elif len(raw) > 2:
                        stmts([raw[2]])
                    continue
                n = ir.strip(st)
                if n.get("kind") in ("BinaryOperator", "CompoundAssignOperator") and (n.get("opcode") or "").endswith("=") and n.get("opcode") not in ("==", "!=", "<=", ">=") \
                        and member_of_this(ir.ekids(n)[0], "m_block"):
                    rv = ceval.conv(ev_expr(ir.ekids(n)[1], obj, blocks, env, rhs), inst.btype)
                    cur = blocks[obj[0]]
                    op = n.get("opcode")
                    blocks[obj[0]] = {"=": rv, "^=": cur ^ rv, "|=": cur | rv, "&=": cur & rv}.get(op, None)
                    if blocks[obj[0]] is None:
                        raise ceval.Unknown("store %s" % op)
                    blocks[obj[0]] &= full
                    continue
                if n.get("kind") == "CXXMemberCallExpr" and this_call(n, set(members)):
                    nm_ = [k_ for k_ in members if this_call(n, {k_})][0]
                    callee = members[nm_]
                    env2 = {}
                    for p_, a_ in zip(ir.params(callee), ir.ekids(n)[1:]):
                        env2[p_.get("id")] = ev_expr(a_, obj, blocks, env, rhs)
                    try:
                        run(callee, obj, blocks, env2, None, depth + 1)
                    except Stop:
                        pass
                    continue
                if n.get("kind") == "ConditionalOperator":
                    kk = ir.ekids(n)
                    stmts([kk[1] if ev_expr(kk[0], obj, blocks, env, rhs) else kk[2]])
                    continue
                raise ceval.Unknown("statement %s" % k)
        stmts(ir.kids(ir.body(fn)))

    pts = [0, 1, W - 1] if W > 2 else [0, 1]
    try:
        for p_ in pts:
            for pattern in (0, full, 0xAAAAAAAAAAAAAAAA & full, 0x5555555555555555 & full):
                if from_ref:
                    scen = [("another block", "B", q_) for q_ in pts] + [("another bit of the same block", "A", q_) for q_ in pts if q_ != p_] + [("the same bit", "A", p_)]
                else:
                    scen = [("false", None, 0), ("true", None, 1)]
                for what, sblk, q_ in scen:
                    for spattern in ((0, full, 0xAAAAAAAAAAAAAAAA & full) if from_ref and sblk == "B" else (None,)):
                        blocks = {"A": pattern, "B": spattern if spattern is not None else 0}
                        this = ("A", 1 << p_)
                        rhs = (sblk, 1 << q_) if from_ref else None
                        want_truth = truth_of(rhs, blocks) if from_ref else q_
                        before = dict(blocks)
                        env = {} if from_ref else {pid: q_}
                        try:
                            run(f, this, blocks, env, rhs)
                        except Stop:
                            pass
                        wantA = (before["A"] | (1 << p_)) if want_truth else (before["A"] & ~(1 << p_) & full)
                        if blocks["A"] != wantA or blocks["B"] != before["B"]:
                            return ("destination bit %d, source: %s%s" % (p_, what, (" (bit %d)" % q_) if from_ref else ""),
                                    "destination block %#x, source %s: the destination block becomes %#x, expected %#x (the bit must take the truth value the source had before "
                                    "the assignment, nothing else may change)" % (before["A"], "true" if want_truth else "false", blocks["A"], wantA))
    except (ceval.Unknown, ceval.UB, IndexError, KeyError, TypeError):
        return None
    return True


def tail_block_mask(d, inst, fn, loop, names, linit, sizes=None):
    """-> True if the last block is read after `loop` and whatever mask is applied to it keeps all the bits below size(); a text if a bit is lost;
    None if the treatment is not recognised"""
    from .. import ceval
    after = False
    tail_reads = []
    lid = loop.get("id")
    loop_ids = {x.get("id") for x in ir.walk_expr(loop)}
    for n in ir.walk_expr(ir.body(fn)):
        if n.get("id") == lid:
            after = True
        if not after or n.get("id") in loop_ids:
            continue
        t = ir.sx(n)
        if n.get("kind") in ("CXXOperatorCallExpr", "ArraySubscriptExpr") and t[0] == "index" and t[1] == ("mem", ("this",), "m_buffer"):
            tail_reads.append(n)
        if n.get("kind") == "CXXMemberCallExpr" and t == ("call", ("mem", ("mem", ("this",), "m_buffer"), "back")):
            tail_reads.append(n)
    if not tail_reads:
        return "the last block is not looked at after the loop"
    # the masks: operands of `&` in the statements after the loop that are not block reads
    masks = []
    after = False
    for n in ir.walk_expr(ir.body(fn)):
        if n.get("id") == lid:
            after = True
        if not after or n.get("id") in loop_ids:
            continue
        if n.get("kind") == "BinaryOperator" and n.get("opcode") == "&":
            for side in ir.ekids(n):
                st = ir.sx(side)
                if not any(x[0] == "index" or (x[0] == "call" and x[1][0] == "mem" and x[1][2] == "back") for x in ir.subterms(st)):
                    masks.append(side)
    if not masks:
        return True            # compared as a whole (the unused bits are kept zero: C03.canon)
    W = inst.W
    full = (1 << W) - 1
    for m in masks:
        node = ir.strip(m)
        hops = 0
        while node.get("kind") == "DeclRefExpr" and (node.get("referencedDecl") or {}).get("id") in linit and hops < 3:
            node = ir.strip(linit[(node.get("referencedDecl") or {}).get("id")])
            hops += 1
        for size in (sizes if sizes is not None else range(1, 2 * W + 1)):
            want = full if size % W == 0 else (1 << (size % W)) - 1
            try:
                got = ceval.ev(node, ceval.Ctx(d, {}, {"m_size": size})) & full
            except ceval.UB as e:
                return "the mask `%s` applied to the last block has undefined behaviour for size() = %d (%s)" % (d.text(node)[:50], size, e)
            except ceval.Unknown:
                return None
            if got & want != want:
                return "the mask `%s` applied to the last block drops bit %d of it for size() = %d: that element takes no part" % (
                    d.text(node)[:50], ((want & ~got) & -(want & ~got)).bit_length() - 1, size)
    return True


def fold_block_indices(d, inst, fn, loop, vdecl, cond):
    """the set of block indices the loop visits, folded for every size 0..2W+1 -> {size: [indices]} or None if the bounds are not foldable"""
    from .. import ceval
    W = inst.W
    out = {}
    pre = []
    for n in ir.walk_expr(ir.body(fn)):
        if n.get("id") == loop.get("id"):
            break
        if n.get("kind") == "VarDecl" and ir.ekids(n) and trange.type_range(ir.qtype(n)) is not None:
            pre.append(n)
    for size in range(0, 2 * W + 2):
        nb = (size + W - 1) // W

        def ctx(env):
            c = ceval.Ctx(d, env, {"m_size": size})
            c.call_values = {("call", ("mem", ("mem", ("this",), "m_buffer"), "size")): nb}
            return c
        env = {}
        for v in pre:
            try:
                env[v.get("id")] = ceval.conv(ceval.ev(ir.ekids(v)[-1], ctx(env)), ir.qtype(v))
            except (ceval.Unknown, ceval.UB):
                pass
        try:
            i = ceval.conv(ceval.ev(ir.ekids(vdecl)[-1], ctx(env)), ir.qtype(vdecl))
            idx = []
            while len(idx) <= 4 * W + 8:
                e2 = dict(env)
                e2[vdecl.get("id")] = i
                if not ceval.ev(cond, ctx(e2)):
                    break
                idx.append(i)
                i += 1
            if len(idx) > 4 * W + 8:
                return None
            out[size] = idx
        except (ceval.Unknown, ceval.UB):
            return None
    return out


def rule_cover(rep, inst, R="C03.cover"):
    d = inst.d
    COUNT = (("call", ("mem", ("this",), "block_count")), ("call", ("mem", ("mem", ("this",), "m_buffer"), "size")))
    for cname, kind, fn in inst.fns:
        if cname != "xdynamic_bitset_base" or fn.get("name") in ("operator<<=", "operator>>="):
            continue
        loops = [n for n in ir.walk_expr(fn) if n.get("kind") in ("ForStmt", "WhileStmt")]
        if not loops:
            continue
        lab = label(cname, kind, fn, inst)
        linit, _ = locals_init(fn)
        names = {n.get("name"): n for n in ir.walk_expr(fn) if n.get("kind") == "VarDecl"}
        for loop in loops:
            raw = loop.get("inner", [])
            if loop.get("kind") == "WhileStmt":
                # `T i = A; while (cond(i)) { ... ++i; }`: the same loop, written out
                r2 = [c for c in raw if isinstance(c, dict) and c.get("kind")]
                cond, body_w = r2[-2], r2[-1]
                incs = [x for x in ir.walk_expr(body_w) if x.get("kind") == "UnaryOperator" and x.get("opcode") == "++" and ir.strip(ir.ekids(x)[0]).get("kind") == "DeclRefExpr"]
                cvars = {(x.get("referencedDecl") or {}).get("name") for x in ir.walk_expr(cond) if x.get("kind") == "DeclRefExpr"}
                incs = [x for x in incs if (ir.strip(ir.ekids(x)[0]).get("referencedDecl") or {}).get("name") in cvars]
                if len(incs) != 1:
                    continue
                vname_ = (ir.strip(ir.ekids(incs[0])[0]).get("referencedDecl") or {}).get("name")
                vd_ = names.get(vname_)
                if vd_ is None or not ir.ekids(vd_):
                    continue
                init = {"kind": "DeclStmt", "inner": [vd_]}
                inc = incs[0]
                raw = [init, None, cond, inc, body_w]
            else:
                init, cond, inc = raw[0], raw[2], raw[3]
            vds = [c for c in ir.kids(init) if c.get("kind") == "VarDecl"] if isinstance(init, dict) and init.get("kind") else []
            if len(vds) != 1:
                continue
            v = vds[0].get("name")
            # pointer locals bound to the block buffer (`const block_type* b = m_buffer.data();`)
            bufptrs = {x.get("name") for x in ir.walk_expr(fn) if x.get("kind") == "VarDecl" and ir.ekids(x) and "*" in ir.qtype(x) and
                       any(t_ == ("call", ("mem", ("mem", ("this",), "m_buffer"), "data")) for t_ in ir.subterms(ir.sx(ir.ekids(x)[-1])))}
            uses = [n for n in ir.walk_expr(raw[4]) if n.get("kind") in ("CXXOperatorCallExpr", "ArraySubscriptExpr")
                    and ir.sx(n)[0] == "index" and (ir.sx(n)[1] == ("mem", ("this",), "m_buffer") or (ir.sx(n)[1][0] == "ref" and ir.sx(n)[1][1] in bufptrs)) and ir.sx(n)[2] == ("ref", v)]
            if not uses:
                continue
            # decided on the folded index sets where the bounds fold: for every size 0..2W+1 the loop visits exactly the blocks of the buffer
            # (or all but the last, which is then treated separately)
            cons0 = "loop `%s`" % d.text(loop).split("{")[0].strip()[:60]
            inc0 = ir.sx(inc) if isinstance(inc, dict) and inc.get("kind") else None
            folded = None
            if isinstance(cond, dict) and cond.get("kind") and inc0 is not None and inc0[0] == "un" and inc0[1] in ("++", "post++") and inc0[2] == ("ref", v) and ir.ekids(vds[0]):
                folded = fold_block_indices(d, inst, fn, loop, vds[0], cond)
            if folded is not None:
                W_ = inst.W
                over = short = gap = None
                short_sizes = []
                for size, idx in sorted(folded.items()):
                    nb = (size + W_ - 1) // W_
                    if any(i_ >= nb or i_ < 0 for i_ in idx):
                        over = over or (size, [i_ for i_ in idx if i_ >= nb or i_ < 0][0], nb)
                    elif idx == list(range(nb)):
                        pass
                    elif nb >= 1 and idx == list(range(nb - 1)):
                        short_sizes.append(size)
                    else:
                        missing = [i_ for i_ in range(nb) if i_ not in idx]
                        gap = gap or (size, missing[0] if missing else None, nb)
                if over:
                    rep.violates(R, lab, cons0, where=d.where(loop), scenario="size() = %d" % over[0],
                                 detail="the loop visits block %d of a buffer of %d block(s): outside the bitset" % (over[1], over[2]))
                elif gap:
                    rep.violates(R, lab, cons0, where=d.where(loop), scenario="size() = %d" % gap[0],
                                 detail="block %s of %d is never visited: some block is never examined/updated" % (gap[1], gap[2]))
                elif short_sizes:
                    verdict = tail_block_mask(d, inst, fn, loop, names, linit, short_sizes)
                    if verdict is True:
                        rep.holds(R, lab, cons0, where=d.where(loop), detail="blocks 0 .. block_count()-2 in the loop, the last one separately (sizes %s..)" % short_sizes[:3])
                    elif verdict is None:
                        rep.inconclusive(R, lab, cons0, where=d.where(loop), detail="stops one block early for sizes %s..; the separate treatment of the last block was not recognised" % short_sizes[:3])
                    else:
                        rep.violates(R, lab, cons0, where=d.where(loop), scenario="size() = %d" % short_sizes[0], detail="the loop stops one block early and %s" % verdict)
                else:
                    rep.holds(R, lab, cons0, where=d.where(loop), detail="blocks 0 .. block_count()-1 for every size 0..%d (bounds folded)" % (2 * W_ + 1))
                continue
            c = ir.sx(cond) if isinstance(cond, dict) and cond.get("kind") else None
            it = ir.sx(inc) if isinstance(inc, dict) and inc.get("kind") else None
            start = ir.sx(ir.ekids(vds[0])[-1]) if ir.ekids(vds[0]) else None
            cons = "loop `%s`" % d.text(loop).split("{")[0].strip()[:60]
            if c is None or it is None or c[0] != "bin" or c[2] != ("ref", v) or it[0] != "un" or it[1] not in ("++", "post++") or c[1] not in ("<", "!="):
                rep.inconclusive(R, lab, cons, where=d.where(loop), detail="not an upward counting loop over the block index")
                continue
            bound = c[3]
            cases = [(None, bound)]
            if bound[0] == "ref" and bound[1] in names and names[bound[1]].get("id") in linit:
                b2 = ir.sx(linit[names[bound[1]].get("id")])
                if b2[0] == "cond":
                    cases = [(("T", b2[1]), b2[2]), (("F", b2[1]), b2[3])]
                else:
                    cases = [(None, b2)]
            ok = start in (("lit", "0"), ("cast", "NoOp", "unsigned long", ("lit", "0"))) or ir.show(start) in ("0", "(unsigned long)0")
            det = ""
            if not ok:
                det = "starts at `%s`, not at block 0" % ir.show(start)
            for tag, b in cases:
                if not ok:
                    break
                if b in COUNT:
                    continue
                if tag is not None and b == ("bin", "-", COUNT[0], ("lit", "1")) or (tag is not None and b[0] == "bin" and b[1] == "-" and b[2] in COUNT and b[3] == ("lit", "1")):
                    # the last block is left to a separate test: it must exist under the same condition (extra bits != 0) and use back() / [count-1]
                    polarity = tag[0] == "T"
                    ct = tag[1]
                    extra = ct[0] == "bin" and ct[1] in ("!=", ">") and ct[3] == ("lit", "0")
                    tail = [n for n in ir.walk_expr(fn) if n.get("kind") == "CXXMemberCallExpr" and ir.sx(n) == ("call", ("mem", ("mem", ("this",), "m_buffer"), "back"))]
                    if not (extra and polarity and tail):
                        ok = False
                        det = "stops one block early (`%s`) without a separate test of the last block under the same condition" % ir.show(b)
                    continue
                if tag is None and b[0] == "bin" and b[1] == "-" and b[3] == ("lit", "1") and (b[2] in COUNT or (b[2][0] == "ref" and b[2][1] in names and
                                                                                                    names[b[2][1]].get("id") in linit and ir.sx(linit[names[b[2][1]].get("id")]) in COUNT)):
                    # all blocks but the last in the loop, the last one separately: it must be read after the loop, and a mask applied to it must
                    # keep every bit below size() - folded for every size 1..2W
                    verdict = tail_block_mask(d, inst, fn, loop, names, linit)
                    if verdict is None:
                        inconc = "stops one block early (`%s`); the separate treatment of the last block was not recognised" % ir.show(b)
                        ok = None
                        break
                    if verdict is not True:
                        ok = False
                        det = "stops one block early and %s" % verdict
                    continue
                ok = False
                det = "runs up to `%s`, expected block_count()" % ir.show(b)
            if ok is None:
                rep.inconclusive(R, lab, cons, where=d.where(loop), detail=inconc)
                continue
            if ok:
                rep.holds(R, lab, cons, where=d.where(loop), detail="blocks 0 .. block_count()-1")
            else:
                rep.violates(R, lab, cons, where=d.where(loop), detail="the loop over the block buffer %s: some block is never examined/updated" % det)


# ---------------------------------------------------------------------------------------------------------------------
# C03.grow
def rule_grow(rep, inst, R="C03.grow"):
    """resize(n, true) that grows must OR all-ones << (old size % W) into the old last block.  Decided on canonical terms per path: the patch
    store, its guards (b, n > old size, old extra bits != 0) and the times at which the old size / old block count were read."""
    d = inst.d
    EXTRA = ("call", ("mem", ("this",), "bit_index"), M_SIZE)
    for fn in inst.find("resize", "xdynamic_bitset"):
        if len(ir.params(fn)) != 2:
            continue
        lab = label("xdynamic_bitset", "owning", fn, inst)
        asize, b = [p.get("name") for p in ir.params(fn)]
        lt = local_terms(fn)
        decl_nodes = {n.get("name"): n for n in ir.walk_expr(fn) if n.get("kind") == "VarDecl"}

        def read_time(t, path_index_of_decl, now):
            """the latest step at which a member (m_size / block count) contributing to t was read: the declaration time of the outermost local
            that captured it, or `now` for a direct read"""
            times = []

            def rec(x, via):
                if not isinstance(x, tuple):
                    return
                if x[0] == "ref" and x[1] in lt:
                    rec(lt[x[1]], path_index_of_decl.get(x[1], now) if via is None else via)
                    return
                c = canon(x, {})
                if c in (M_SIZE, N_BLOCKS):
                    times.append(via if via is not None else now)
                    return
                for y in x[1:]:
                    rec(y, via)
            rec(t, None)
            return times

        paths = flow.function_paths(fn, with_ctor_inits=False)
        ref_locals = {}
        for v_ in ir.walk_expr(fn):
            if v_.get("kind") == "VarDecl" and ir.qtype(v_).rstrip().endswith("&") and ir.ekids(v_):
                t_ = ir.sx(ir.ekids(v_)[-1])
                while t_[0] == "cast":
                    t_ = t_[3]
                ref_locals[v_.get("name")] = t_
        bad = None
        inconc = None
        npatch = 0
        for path in paths:
            decl_at = {}
            size_store_at = resize_at = None
            patch = None
            # a path that takes both outcomes of the same test of an unmodified parameter (if (b) ... if (b && ...)) cannot be executed
            seen_c = {}
            infeasible = False
            for st in path:
                if st[0] == "cond":
                    c0 = ir.sx(st[1])
                    while c0[0] == "cast":
                        c0 = c0[3]
                    if c0[0] == "ref" and c0[1] in (asize, b):
                        if seen_c.get(c0, st[2]) != st[2]:
                            infeasible = True
                        seen_c[c0] = st[2]
            if infeasible:
                continue
            for i, st in enumerate(path):
                if st[0] == "decl":
                    decl_at[st[1].get("name")] = i
                if st[0] == "ev":
                    n = st[1]
                    if n.get("kind") in ("BinaryOperator", "CompoundAssignOperator") and n.get("opcode") == "=" and member_of_this(ir.ekids(n)[0], "m_size") and size_store_at is None:
                        size_store_at = i
                    if n.get("kind") == "CXXMemberCallExpr" and ir.sx(n)[0] == "call" and ir.sx(n)[1] == ("mem", ("mem", ("this",), "m_buffer"), "resize") and resize_at is None:
                        resize_at = i
                    if n.get("kind") == "CompoundAssignOperator" and n.get("opcode") == "|=":
                        tl_ = ir.sx(ir.ekids(n)[0])
                        while tl_[0] == "cast":
                            tl_ = tl_[3]
                        if tl_[0] == "ref" and tl_[1] in ref_locals:
                            tl_ = ref_locals[tl_[1]]          # `block_type& last = m_buffer[k]; last |= ...` writes m_buffer[k]
                        if elem_target(tl_, set()) is not None:
                            patch = (n, i, tl_)
            # facts of the path on canonical terms
            b_true = None
            extra_nonzero = None
            facts = []

            def symmap(t):
                c = canon(t, lt)
                if c == M_SIZE:
                    return "old"
                if c == ("ref", asize):
                    return "new"
                return None
            for st in path:
                if st[0] != "cond":
                    continue
                c = canon(ir.sx(st[1]), lt)
                if c == ("ref", b):
                    b_true = st[2]
                    continue
                if c == EXTRA:
                    extra_nonzero = st[2]
                    continue
                if c[0] == "bin" and c[1] in linear.NEG:
                    op = c[1] if st[2] else linear.NEG[c[1]]
                    if EXTRA in (c[2], c[3]):
                        other = c[3] if c[2] == EXTRA else c[2]
                        if other in (("lit", "0"), ("lit", 0)):
                            flipped = c[3] == EXTRA
                            if op == "!=" or (op == ">" and not flipped) or (op == "<" and flipped):
                                extra_nonzero = True
                            elif op == "==" or (op == "<=" and not flipped) or (op == ">=" and flipped):
                                extra_nonzero = False
                        continue
                    l_, r_ = linear.lin(c[2], symmap), linear.lin(c[3], symmap)
                    if l_ is not None and r_ is not None:
                        facts += linear.atom_facts(op, l_, r_)
            grows = linear.entails(facts, Lin({"new": 1, "old": -1, "": -1}), ())
            not_grows = linear.entails(facts, Lin({"old": 1, "new": -1}), ())
            if patch is not None:
                npatch += 1
                n, at, tl_ = patch
                t = ir.sx(n)
                tgt, val = canon(tl_, lt), canon(t[3], lt)
                raw_tgt, raw_val = tl_, t[3]
                if not (b_true and grows and extra_nonzero):
                    bad = (n, "the last-block patch runs on a path that did not establish b, n > old size and (old size %% W) != 0 (b=%s, grows=%s, extra bits != 0: %s): "
                              "its index is out of range after a shrink, or it sets bits that must stay clear" % (b_true, grows, extra_nonzero))
                    break
                if tgt != ("index", ("mem", ("this",), "m_buffer"), ("bin", "-", N_BLOCKS, ("lit", "1"))):
                    bad = (n, "the patch targets `%s`, expected the old last block m_buffer[<old block count> - 1]" % ir.show(raw_tgt))
                    break
                if any(tm >= (resize_at if resize_at is not None else 10 ** 9) for tm in read_time(raw_tgt, decl_at, at)):
                    bad = (n, "the block count used to find the old last block is read after the buffer was resized")
                    break
                if any(tm >= (size_store_at if size_store_at is not None else 10 ** 9) for tm in read_time(raw_val, decl_at, at)):
                    bad = (n, "the number of used bits of the old last block is computed after m_size was updated")
                    break
                # the value ORed in, folded for every number e = 1..W-1 of used bits of the old last block with b true: all-ones << e.  The locals
                # it mentions take the value they hold on THIS path (initialiser or last assignment before the patch).
                vnode = ir.ekids(n)[1]
                wrong = None
                for e_ in range(1, inst.W):
                    env = {}
                    for p_ in ir.params(fn):
                        if p_.get("name") == b:
                            env[p_.get("id")] = 1
                    members = {"m_size": e_}

                    def mk():
                        c_ = ceval.Ctx(d, env, members)
                        c_.call_values = {("call", ("mem", ("mem", ("this",), "m_buffer"), "size")): 1}
                        return c_
                    for st2 in path[:at]:
                        try:
                            if st2[0] == "decl" and ir.ekids(st2[1]) and trange.type_range(ir.qtype(st2[1])) is not None:
                                env[st2[1].get("id")] = ceval.conv(ceval.ev(ir.ekids(st2[1])[-1], mk()), ir.qtype(st2[1]))
                            elif st2[0] == "ev" and st2[1].get("kind") == "BinaryOperator" and st2[1].get("opcode") == "=":
                                l2 = ir.strip(ir.ekids(st2[1])[0])
                                if l2.get("kind") == "DeclRefExpr":
                                    rid_ = (l2.get("referencedDecl") or {}).get("id")
                                    env[rid_] = ceval.conv(ceval.ev(ir.ekids(st2[1])[1], mk()), ir.qtype(l2))
                        except (ceval.Unknown, ceval.UB):
                            pass
                    try:
                        got = ceval.conv(ceval.ev(vnode, mk()), inst.btype) & inst.full
                    except ceval.UB as ex:
                        wrong = (e_, "undefined behaviour: %s" % ex)
                        break
                    except ceval.Unknown as ex:
                        wrong = (e_, None, str(ex))
                        break
                    want = (inst.full << e_) & inst.full
                    if got != want:
                        wrong = (e_, "it ORs %#x where the bits above the old size are %#x" % (got, want))
                        break
                if wrong and wrong[1] is None:
                    inconc = "the value ORed into the old last block (`%s`) is not foldable: %s" % (ir.show(raw_val)[:50], wrong[2])
                    break
                if wrong:
                    bad = (n, "with %d used bits in the old last block and b true, %s (`%s`)" % (wrong[0], wrong[1], ir.show(raw_val)[:50]))
                    break
            else:
                if b_true and grows and extra_nonzero is not False and not not_grows:
                    # growing with true and the old last block partly used (or not tested): the patch is missing on this path
                    if extra_nonzero is True or extra_nonzero is None:
                        bad = (fn, "on a path with b true and n > old size%s the old last block is not patched: the bits between the old size and the end of that block stay 0"
                                   % (" and (old size % W) != 0" if extra_nonzero else ""))
                        break
        if bad:
            rep.violates(R, lab, "growing with true fills the old last block above the old size", where=d.where(bad[0]), detail=bad[1])
        elif inconc:
            rep.inconclusive(R, lab, "growing with true fills the old last block above the old size", where=d.where(fn), detail=inconc)
        elif npatch == 0:
            rep.violates(R, lab, "growing with true fills the old last block above the old size", where=d.where(fn),
                         detail="resize(n, true) never ORs the fill value into the old last block: after growing from a size that is not a multiple of the block width the new bits up to the block boundary are 0")
        else:
            rep.holds(R, lab, "growing with true fills the old last block above the old size", where=d.where(fn), detail="%d patched paths of %d" % (npatch, len(paths)))


# ---------------------------------------------------------------------------------------------------------------------
# C03.cmp - comparisons decided by the operand types alone
def rule_eqsize(rep, inst, R="C03.cover"):
    """operator== answers `true` only on paths that have established that the two sizes are equal (bitsets of different length are never equal,
    whatever their blocks - a view over a prefix of the same memory included)"""
    d = inst.d
    for cname, kind, fn in inst.fns:
        if fn.get("name") != "operator==" or not ir.params(fn) or cname not in ("xdynamic_bitset_base", "xdynamic_bitset", "xdynamic_bitset_view"):
            continue        # the base class's operator and any overload a derived container class puts in front of it
        lab = label(cname, kind, fn, inst)
        try:
            paths = flow.function_paths(fn, with_ctor_inits=False)
        except cj.AnalysisBroken:
            continue
        bools = {}
        for v in ir.walk_expr(fn):
            if v.get("kind") == "VarDecl" and ir.ekids(v) and ir.qtype(v).replace("const ", "").strip() == "bool":
                bools[v.get("name")] = ir.sx(ir.ekids(v)[-1])

        def size_eq(t, truth):
            """does condition t with this outcome establish m_size == rhs.m_size?"""
            while t[0] == "cast":
                t = t[3]
            if t[0] == "ref" and t[1] in bools:
                return size_eq(bools[t[1]], truth)
            if t[0] == "un" and t[1] == "!":
                return size_eq(t[2], not truth)
            if t[0] == "bin" and t[1] in ("==", "!="):
                names = []
                for side in (t[2], t[3]):
                    while side[0] == "cast":
                        side = side[3]
                    if (side[0] == "mem" and side[2] == "m_size") or (side[0] == "call" and side[1][0] == "mem" and side[1][2] == "size" and len(side) == 2):
                        names.append(side[1] if side[0] == "mem" else side[1][1])
                if len(names) == 2 and names[0] != names[1]:
                    return truth == (t[1] == "==")
            return False
        bad = None
        undecided = None
        for path in paths:
            end = path[-1]
            if end[0] != "return" or not ir.ekids(end[1]):
                continue
            established = any(st[0] == "cond" and size_eq(ir.sx(st[1]), st[2]) for st in path)
            rv = ir.sx(ir.ekids(end[1])[0])
            while rv[0] == "cast":
                rv = rv[3]
            if rv == ("lit", "false"):
                continue
            if established:
                continue
            if rv == ("lit", "true"):
                bad = bad or (end[1], "a path answers `true` without having compared the two sizes: %s" % "; ".join(
                    "%s is %s" % (d.text(st[1])[:40], st[2]) for st in path if st[0] == "cond")[:160])
            else:
                # a computed answer: it must contain the size comparison itself
                if not any(size_eq(x, True) for x in ir.subterms(rv) if isinstance(x, tuple)):
                    if rv[0] == "bin" and rv[1] == "==" and all("m_buffer" in ir.show(x) for x in (rv[2], rv[3])):
                        bad = bad or (end[1], "the answer is `%s` alone: equal block buffers do not make equal sizes (bitsets of 2 and of 3 bits with the same single block)" % ir.show(rv)[:60])
                        continue
                    undecided = undecided or (end[1], "the answer `%s` is computed on a path that did not compare the sizes" % ir.show(rv)[:50])
        if bad:
            rep.violates(R, lab, "equal only if the sizes are equal", where=d.where(bad[0]), detail=bad[1])
        elif undecided:
            rep.inconclusive(R, lab, "equal only if the sizes are equal", where=d.where(undecided[0]), detail=undecided[1])
        else:
            rep.holds(R, lab, "equal only if the sizes are equal", where=d.where(fn), detail="%d paths" % len(paths))


def rule_cmp(rep, inst):
    d = inst.d
    R = "C03.cmp"
    btr = trange.type_range(inst.btype)
    for cname, kind, fn in inst.fns:
        if cname not in CLASSES + ("xbitset_reference",):
            continue
        lab = label(cname, kind, fn, inst)
        env = {}
        for n in ir.walk_expr(fn):
            if n.get("kind") == "VarDecl" and ir.ekids(n) and ("const" in ir.qtype(n) or n.get("constexpr")):
                try:
                    v = ceval.conv(ceval.ev(ir.ekids(n)[-1], ceval.Ctx(d)), ir.qtype(n))
                    env[n.get("id")] = (v, v)
                except (ceval.Unknown, ceval.UB):
                    pass
        for n in ir.walk_expr(fn):
            if n.get("kind") != "BinaryOperator" or n.get("opcode") not in ("==", "!=", "<", "<=", ">", ">="):
                continue
            l, r = ir.ekids(n)
            # only comparisons in which a block-typed value takes part
            def blocky(x):
                s = x
                while s.get("kind") in ("ImplicitCastExpr", "ParenExpr") and ir.ekids(s):
                    if s.get("kind") == "ImplicitCastExpr" and s.get("castKind") == "IntegralCast" and ir.qtype(ir.ekids(s)[0]).replace("const ", "") == inst.btype:
                        return True
                    s = ir.ekids(s)[0]
                return ir.qtype(s).replace("const ", "") == inst.btype
            if not (blocky(l) or blocky(r)):
                continue
            def rng_of(x):
                try:
                    v = ceval.ev(x, ceval.Ctx(d, {k_: v_[0] for k_, v_ in env.items()}))
                    return (v, v)
                except (ceval.Unknown, ceval.UB):
                    return trange.interval(x, env)
            a, b = rng_of(l), rng_of(r)
            if a is None or b is None:
                continue
            op = n.get("opcode")
            decided = None
            if a[1] < b[0]:
                decided = {"==": False, "!=": True, "<": True, "<=": True, ">": False, ">=": False}[op]
            elif a[0] > b[1]:
                decided = {"==": False, "!=": True, "<": False, "<=": False, ">": True, ">=": True}[op]
            txt = d.text(n)[:50]
            if decided is None or (a[0] == a[1] and b[0] == b[1]):
                rep.holds(R, lab, "`%s`" % txt, where=d.where(n), detail="operand ranges [%d,%d] and [%d,%d] overlap" % (a + b))
            else:
                rep.violates(R, lab, "`%s`" % txt, where=d.where(n),
                             detail="always %s for block type %s: after the usual arithmetic conversions the operands range over [%d,%d] and [%d,%d]" % (
                                 str(decided).lower(), inst.btype, a[0], a[1], b[0], b[1]))


# ---------------------------------------------------------------------------------------------------------------------
def run(tier):
    rep = Report("C03", tier, "other",
                 "Structural necessary conditions decided on every instantiated member of xdynamic_bitset_base/xdynamic_bitset/"
                 "xdynamic_bitset_view for each block type: (canon) path-sensitive typestate - every normal exit leaves bits >= size() "
                 "cleared, with stores classified as preserving/dirtying and zero_unused_bits() as the cleaning event; (helpers) the "
                 "bit/block index, mask, block-count and unused-bit-mask formulas folded exactly over every bit offset 0..W-1 with "
                 "clang's recorded conversions; (shift) every block move of <<=/>>= displaces bits by exactly pos, stays inside "
                 "[0,last] and the moved + zero-filled ranges tile the buffer; (at) at() throws out_of_range exactly for i >= size(); "
                 "(empty) no front/back/[0]/[count-1] access without a dominating non-emptiness fact; (blocks) the buffer is sized "
                 "ceil(size/W) wherever size is set; (grow) resize(n,true) patches the old last block; (cmp) no comparison of a block "
                 "value is decided by integer promotion alone.  The bit values resulting from operation histories are NOT decided.",
                 trusted_base=["clang 14 resolved AST (instantiations)", "sa/flow.py path enumeration", "sa/ceval.py integer conversion rules", "sa/linear.py"],
                 assumptions=["x86-64 LP64", "callers respect pos < size() for unchecked single-bit operations and equal sizes for the blockwise operators",
                              "loops are unrolled 0/1 times (the typestate is idempotent per iteration)"])
    rep.rule("C03.canon", "at every normal exit of every member the bits >= size() of the last block are zero: after the last store that may set them "
                          "(complement, upward shift, non-zero fill, foreign blocks, size/block-count change) zero_unused_bits() runs")
    rep.rule("C03.helpers", "block_index/bit_index/bit_mask/compute_block_count/integer_ceil/count_extra_bits, the unused-bit masks and the bit-reference "
                            "mask and primitives equal their defining formulas for every bit offset of the block type (exact folding with promotions)")
    rep.rule("C03.shift", "in operator<<= / operator>>= every stored term is displaced by exactly +pos / -pos bits, every block index lies in [0,last], "
                          "the moved ranges plus the zero fill tile the whole buffer, and a shift by >= size() clears the bitset")
    rep.rule("C03.at", "at(i) returns only on paths that established i < size() and throws std::out_of_range on the others")
    rep.rule("C03.empty", "front()/back()/[0]/[count-1] on the block buffer is dominated by a fact that implies size() != 0")
    rep.rule("C03.blocks", "wherever a member sets the size it brings the buffer to compute_block_count/integer_ceil of that same size")
    rep.rule("C03.grow", "resize(n, true) that grows ORs all-ones << old extra bits into the old last block, read before size and buffer change")
    rep.rule("C03.cover", "every loop of a query or blockwise operator that subscripts the block buffer with its loop variable runs from block 0 to block_count() "
                          "(all(): to the last full block, with the partial last block tested separately under the same condition)")
    rep.rule("C03.cmp", "no comparison involving a block value is always true/false because of integer promotion of a narrow block type")
    blocks = BLOCKS[tier]
    d = cj.dump(driver(blocks), "xtl::")
    rep.cmd(d.cmd)
    insts = gather(d)
    want = {trange.ALIASES[b] for b in blocks}
    if set(insts) != want:
        raise cj.AnalysisBroken("expected instantiations for %s, found %s" % (sorted(want), sorted(insts)))
    def all_rules(rp, inst):
        rule_helpers(rp, inst)
        flows = shift_analysis(rp, inst)
        rule_canon(rp, inst, flows)
        rule_at(rp, inst)
        rule_empty(rp, inst)
        rule_blocks(rp, inst)
        rule_grow(rp, inst)
        rule_cover(rp, inst)
        rule_eqsize(rp, inst)
        rule_cmp(rp, inst)
    for bt in sorted(insts, key=lambda b: WIDTH[b]):
        inst = insts[bt]
        rep.unit("block type %s: %d member instantiations" % (bt, len(inst.fns)))
        all_rules(rep, inst)
    # code selected by the language level (feature-test macros, `#if __cplusplus`): the narrowest block type again under the other standards
    for std in (("gnu++20",) if tier == "quick" else ("gnu++14", "gnu++20")):
        d2 = cj.dump(driver(["std::uint8_t"]), "xtl::", std=std)
        rep.cmd(d2.cmd)
        i2 = gather(d2).get("unsigned char")
        if i2 is None:
            raise cj.AnalysisBroken("no instantiation for unsigned char under -std=%s" % std)
        rep.unit("block type unsigned char under -std=%s: %d member instantiations" % (std, len(i2.fns)))
        all_rules(_Suffix(rep, " [-std=%s]" % std), i2)
    return rep


class _Suffix:
    """forwards to a Report, marking the function label with the configuration the instance was decided under"""
    def __init__(self, rep, suffix):
        self._rep, self._sfx = rep, suffix

    def holds(self, r, fn, *a, **k):
        return self._rep.holds(r, fn + self._sfx, *a, **k)

    def violates(self, r, fn, *a, **k):
        return self._rep.violates(r, fn + self._sfx, *a, **k)

    def inconclusive(self, r, fn, *a, **k):
        return self._rep.inconclusive(r, fn + self._sfx, *a, **k)

    def __getattr__(self, name):
        return getattr(self._rep, name)
