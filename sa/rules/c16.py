"""C16 — span views cover exactly the requested sub-range; checked mode rejects bad ones.

The class-template pattern of tcb::span is analysed (symbolic Extent/Offset/Count).  For every accessor the contract
condition (TCB_SPAN_EXPECT) is turned into linear facts - admitting only wrap-free atoms - and must entail that the
returned view/reference lies inside [data(), data()+size()).
"""
import re
from .. import clangjson as cj
from .. import ir
from ..linear import Lin, lin, nnf, dnf, atom_facts, entails
from ..report import Report

DRIVER = '#include "xtl/xspan.hpp"\n'
UNSIGNED_SYMS = {"S"}


def symmap_factory(unsigned_params):
    def symmap(t):
        if t[0] == "call" and len(t) == 2 and ((t[1][0] == "mem" and t[1][2] == "size") or t[1] == ("ref", "size")):
            return "S"
        if t[0] == "mem" and t[2] == "size" and t[1][0] == "mem" and t[1][2] == "storage_":
            return "S"
        if t[0] == "ref" and t[1] not in ("dynamic_extent",):
            return t[1]
        return None
    return symmap


def is_dyn_test(leaf):
    """atom comparing something with dynamic_extent -> (symbol, is_equal) else None"""
    if leaf[0] != "atom" or leaf[1] not in ("==", "!="):
        return None
    l, r = leaf[2], leaf[3]
    strip = lambda t: t[3] if t[0] == "cast" else t
    l, r = strip(l), strip(r)
    if r == ("ref", "dynamic_extent") and l[0] == "ref":
        return l[1], leaf[1] == "=="
    if l == ("ref", "dynamic_extent") and r[0] == "ref":
        return r[1], leaf[1] == "=="
    return None


def wrap_prone(t, symmap):
    """an unsigned addition of two non-constant operands inside t (can wrap) -> the offending subterm"""
    for s in ir.subterms(t):
        if s[0] == "bin" and s[1] == "+":
            a = lin(s[2], symmap)
            b = lin(s[3], symmap)
            if a is None or b is None:
                continue
            if any(k != "" for k in a) and any(k != "" for k in b):
                return s
    return None


def guard_cases(cond, symmap, nonneg):
    """contract condition -> list of cases: (facts [Lin>=0], dyn {sym: bool}, problems [str])"""
    cases = []
    for conj in dnf(nnf(cond)):
        facts, dyn, problems = [], {}, []
        feasible = True
        for leaf in conj:
            if leaf[0] == "bool":
                if not leaf[1]:
                    feasible = False
                continue
            if leaf[0] == "opaque":
                t, pos = leaf[1], leaf[2]
                # !empty()  <=>  size() >= 1
                if t[0] == "call" and len(t) == 2 and (t[1] == ("ref", "empty") or (t[1][0] == "mem" and t[1][2] == "empty")):
                    facts.append(Lin({"S": 1, "": -1}) if not pos else Lin({"S": -1}))
                continue
            dt = is_dyn_test(leaf)
            if dt is not None:
                if dt[0] in dyn and dyn[dt[0]] != dt[1]:
                    feasible = False
                dyn[dt[0]] = dt[1]
                continue
            op, l, r = leaf[1], leaf[2], leaf[3]
            w = wrap_prone(l, symmap) or wrap_prone(r, symmap)
            if w is not None:
                problems.append(("wrap", ir.show(("bin", op, l, r)), ir.show(w)))
                continue
            ll, rr = lin(l, symmap), lin(r, symmap)
            if ll is None or rr is None:
                continue
            # subtraction a - b is admitted as a mathematical difference only if b <= a is already known
            bad_sub = False
            for side in (l, r):
                for s in ir.subterms(side):
                    if s[0] == "bin" and s[1] == "-":
                        a, b = lin(s[2], symmap), lin(s[3], symmap)
                        if a is None or b is None or not entails(facts, a - b, nonneg):
                            bad_sub = True
            if bad_sub:
                problems.append(("sub", ir.show(("bin", op, l, r)), "subtraction may wrap: its operands are not ordered by an earlier conjunct"))
                continue
            facts += atom_facts(op, ll, rr)
        if feasible:
            cases.append((facts, dyn, problems))
    return cases


def select_branch(t, dyn):
    """resolve `X ==/!= dynamic_extent ? a : b` inside a returned expression under the case's dyn assignment"""
    while t[0] == "cond":
        leaf = nnf(t[1])
        dt = is_dyn_test(leaf) if leaf[0] == "atom" else None
        if dt is None:
            return None
        if dt[0] not in dyn:
            return ("need", dt[0])
        t = t[2] if dyn[dt[0]] == dt[1] else t[3]
    return t


def find_expect(stmts):
    for s in stmts:
        if s.get("kind") == "ConditionalOperator":
            ks = ir.ekids(s)
            call = ir.sx(ks[2])
            if call[0] == "call" and call[1] == ("ref", "contract_violation"):
                return s, ir.sx(ks[0])
    return None, None


HELPERS = {}


def expand_helpers(t, depth=0):
    """calls of single-return member helpers of span (an extracted tail_ptr_(n), remaining_(off)) are replaced by what they return"""
    if not isinstance(t, tuple):
        return t
    t = tuple(expand_helpers(x, depth) if isinstance(x, tuple) else x for x in t)
    if len(t) >= 2 and t[0] == "call" and isinstance(t[1], tuple) and depth < 3:
        nm = t[1][1] if t[1][0] == "ref" else (t[1][2] if t[1][0] == "mem" and t[1][1] == ("this",) else None)
        h = HELPERS.get(nm)
        if h is not None and len(ir.params(h)) == len(t) - 2:
            ks = ir.kids(ir.body(h))
            m = dict(zip([p.get("name") for p in ir.params(h)], t[2:]))

            def subst(x):
                if not isinstance(x, tuple):
                    return x
                if x[0] == "ref" and x[1] in m:
                    return m[x[1]]
                return tuple(subst(y) if isinstance(y, tuple) else y for y in x)
            return expand_helpers(subst(ir.sx(ir.ekids(ks[0])[0])), depth + 1)
    return t


def analyse_accessor(rep, d, fn, symmap):
    name = fn.get("name")
    label = "span::%s%s" % (name, "<>" if not ir.params(fn) and name in ("first", "last", "subspan") else "(%s)" % ", ".join(p.get("name", "") for p in ir.params(fn)))
    where = d.where(fn)
    stmts = ir.kids(ir.body(fn))
    ret = [s for s in stmts if s.get("kind") == "ReturnStmt"]
    if len(ret) != 1:
        rep.inconclusive("C16.range", label, "return", where=where, detail="expected a single return")
        return
    rt = expand_helpers(ir.sx(ir.ekids(ret[0])[0]))
    nonneg = set(UNSIGNED_SYMS) | {p.get("name") for p in ir.params(fn) if "index_type" in ir.wtype(p) or "size_t" in ir.wtype(p) or "unsigned" in ir.qtype(p)}
    exp_node, cond = find_expect(stmts)
    if cond is None:
        # the whole body hands its own parameters, unchanged and in order, to another accessor that carries the contract (`return this->operator[](idx);`)
        rt0 = ir.sx(ir.ekids(ret[0])[0])
        while rt0[0] == "cast":
            rt0 = rt0[3]
        CHECKED = ("operator[]", "first", "last", "subspan", "front", "back", "at")
        if len(stmts) == 1 and ((rt0[0] == "call" and rt0[1][0] == "mem" and rt0[1][1] in (("this",), ("un", "*", ("this",))) and rt0[1][2] in CHECKED and
                                 list(rt0[2:]) == [("ref", p.get("name")) for p in ir.params(fn)]) or
                                (rt0[0] == "index" and rt0[1] == ("un", "*", ("this",)) and [rt0[2]] == [("ref", p.get("name")) for p in ir.params(fn)])):
            rep.holds("C16.range", label, "contract", where=where, detail="delegates to %s with its own arguments; the contract is checked there" % (rt0[1][2] if rt0[0] == "call" else "operator[]"))
            return
        rep.violates("C16.range", label, "contract", where=where,
                     detail="no TCB_SPAN_EXPECT precondition although the accessor computes `%s`" % ir.show(rt)[:120])
        return
    cases = guard_cases(cond, symmap, nonneg)
    if not cases:
        rep.inconclusive("C16.range", label, "contract", where=where, detail="contract condition has no satisfiable case")
        return
    for facts, dyn, problems in cases:
        scen = ", ".join("%s %s dynamic_extent" % (k, "==" if v else "!=") for k, v in sorted(dyn.items())) or "all arguments"
        for kind, atom, why in problems:
            if kind == "wrap":
                rep.violates("C16.wrap", label, "check `%s`" % atom, where=d.where(exp_node), scenario=scen,
                             detail="the bounds check adds two unbounded unsigned values (`%s`); the sum can wrap so the test accepts "
                                    "out-of-range arguments" % why)
            else:
                rep.violates("C16.wrap", label, "check `%s`" % atom, where=d.where(exp_node), scenario=scen, detail=why)
        # static extent: size() == Extent in the `Extent != dynamic_extent` cases
        f2 = list(facts)
        if dyn.get("Extent") is False:
            f2 += [Lin({"S": 1, "Extent": -1}), Lin({"S": -1, "Extent": 1})]
        check_return(rep, d, label, where, scen, rt, dyn, f2, nonneg, symmap)
    if not any(p for _, _, p in cases):
        rep.holds("C16.wrap", label, "contract atoms are wrap-free", where=where)


def data_plus(t, symmap):
    """data() + X -> Lin X (data() alone -> 0)"""
    # the start of the viewed sequence in any of its spellings: data(), begin(), or the stored pointer itself
    def is_data(u):
        while u[0] == "cast":
            u = u[3]
        if u[0] == "call" and len(u) == 2 and (u[1] in (("ref", "data"), ("ref", "begin"), ("ref", "cbegin")) or (u[1][0] == "mem" and u[1][1] == ("this",) and u[1][2] in ("data", "begin", "cbegin"))):
            return True
        return u[0] == "mem" and u[2] == "ptr" and u[1][0] == "mem" and u[1][2] == "storage_" and u[1][1] == ("this",)
    while t[0] == "cast":
        t = t[3]
    if is_data(t):
        return Lin(), ("lit", "0")
    if t[0] == "bin" and t[1] == "+" and is_data(t[2]):
        return lin(t[3], symmap), t[3]
    if t[0] == "bin" and t[1] == "+" and is_data(t[3]):
        return lin(t[2], symmap), t[2]
    return None, None


def deref_form(rt):
    """*(P) or P[i] -> the pointer term P (+ i), else None"""
    while rt[0] == "cast":
        rt = rt[3]
    if rt[0] == "un" and rt[1] == "*":
        return rt[2]
    if rt[0] == "index":
        return ("bin", "+", rt[1], rt[2])
    return None


def check_return(rep, d, label, where, scen, rt, dyn, facts, nonneg, symmap):
    S = Lin({"S": 1})
    if rt[0] == "construct" and len(rt) == 4:
        px, xt = data_plus(rt[2], symmap)
        yt = select_branch(rt[3], dyn)
        # a dynamic-count case may need the Extent split
        if yt is not None and yt[0] == "need":
            sym = yt[1]
            for is_dyn in (True, False):
                dyn2 = dict(dyn)
                dyn2[sym] = is_dyn
                f2 = list(facts)
                if sym == "Extent" and not is_dyn:
                    f2 += [Lin({"S": 1, "Extent": -1}), Lin({"S": -1, "Extent": 1})]
                check_return(rep, d, label, where, scen + ", %s %s dynamic_extent" % (sym, "==" if is_dyn else "!="), rt, dyn2, f2, nonneg, symmap)
            return
        py = lin(yt, symmap) if yt is not None else None
        if px is None or py is None:
            rep.inconclusive("C16.range", label, "returned view", where=where, scenario=scen, detail="cannot read {data()+X, Y} from `%s`" % ir.show(rt)[:160])
            return
        # exactly the requested sub-range
        base = label.split("::")[1].split("(")[0].split("<")[0]
        cnt = "Count" if "<>" in label else "count"
        off = "Offset" if "<>" in label else "offset"
        cdyn = dyn.get(cnt)
        spec = {"first": (Lin(), Lin({cnt: 1})), "last": (Lin({"S": 1, cnt: -1}), Lin({cnt: 1})),
                "subspan": (Lin({off: 1}), (Lin({"S": 1, off: -1}) if cdyn else Lin({cnt: 1})))}.get(base)
        if spec is not None:
            eq = lambda a, b: entails(facts, a - b, ()) and entails(facts, b - a, ())
            if eq(px, spec[0]) and eq(py, spec[1]):
                rep.holds("C16.exact", label, "requested sub-range", where=where, scenario=scen)
            else:
                rep.violates("C16.exact", label, "requested sub-range", where=where, scenario=scen,
                             detail="%s must return {data() + (%s), %s} but returns {data() + (%s), %s}" % (
                                 base, spec[0].show(), spec[1].show(), px.show(), py.show()))
        goals = [("offset >= 0", px), ("offset <= size()", S - px), ("count >= 0", py), ("offset + count <= size()", S - px - py)]
        failed = [g for g, e in goals if not entails(facts, e, nonneg)]
        if failed:
            rep.violates("C16.range", label, "returned view", where=where, scenario=scen,
                         detail="returns {data() + (%s), %s}; the contract does not establish: %s" % (px.show(), py.show(), "; ".join(failed)))
        else:
            rep.holds("C16.range", label, "returned view", where=where, scenario=scen,
                      detail="{data() + (%s), %s} within [0, size()]" % (px.show(), py.show()))
        return
    if deref_form(rt) is not None:
        px, xt = data_plus(deref_form(rt), symmap)
        if px is None:
            rep.inconclusive("C16.range", label, "returned reference", where=where, scenario=scen, detail=ir.show(rt)[:120])
            return
        goals = [("index >= 0", px), ("index < size()", S - px - Lin({"": 1}))]
        failed = [g for g, e in goals if not entails(facts, e, nonneg)]
        if failed:
            rep.violates("C16.range", label, "returned reference", where=where, scenario=scen,
                         detail="returns *(data() + (%s)); the contract does not establish: %s" % (px.show(), "; ".join(failed)))
        else:
            rep.holds("C16.range", label, "returned reference", where=where, scenario=scen, detail="*(data() + (%s))" % px.show())
        return
    rep.inconclusive("C16.range", label, "return", where=where, scenario=scen, detail="unrecognised return `%s`" % ir.show(rt)[:120])


def rule_at(rep, d, fn, symmap, noexc=False):
    """path-wise: on every path that returns the element the recorded conditions (locals read through) entail idx < size(); the other paths
    throw std::out_of_range (or, without exceptions, reach std::terminate/abort)"""
    from .. import flow
    from .. import fstring as fs
    label = "span::at(idx)" + (" [-fno-exceptions]" if noexc else "")
    where = d.where(fn)
    loc = fs.local_sx(fn)
    pname = ir.params(fn)[0].get("name")
    nonneg = {"S", "idx"} | {p.get("name") for p in ir.params(fn)}
    goal = Lin({"S": 1, pname: -1, "": -1})

    noret = set()
    for f_ in ir.functions(d):
        if ir.body(f_) is not None and "xspan" in (d.where(f_) or ""):
            attrs = [c_.get("kind") for c_ in f_.get("inner", []) if isinstance(c_, dict)]
            if any(k_ and k_.endswith("NoReturnAttr") for k_ in attrs):
                noret.add(f_.get("name"))
            else:
                # a helper every path of which throws / terminates
                try:
                    ps_ = flow.function_paths(f_, with_ctor_inits=False, may_throw=lambda n: False)
                except Exception:
                    ps_ = []
                if ps_ and all(p_[-1][0] in ("escape", "throw") or any(st_[0] == "ev" and st_[1].get("kind") == "CallExpr" and ir.sx(st_[1])[0] == "call" and
                                                                     ir.show(ir.sx(st_[1])[1]).split("::")[-1] in ("terminate", "abort") for st_ in p_) for p_ in ps_):
                    noret.add(f_.get("name"))

    def is_stop(n):
        if n.get("kind") not in ("CallExpr", "CXXMemberCallExpr"):
            return False
        t_ = ir.sx(n)
        if t_[0] != "call":
            return False
        nm_ = (t_[1][2] if t_[1][0] == "mem" else ir.show(t_[1])).split("::")[-1]
        return nm_ in ("terminate", "abort", "_Exit", "quick_exit") or nm_ in noret
    paths = flow.function_paths(fn, with_ctor_inits=False, may_throw=lambda n: False)
    n_ret = n_rej = 0
    bad = None
    thrown = []
    for path in paths:
        atoms = []
        raws = []
        stopped = False
        for st in path:
            if st[0] == "cond":
                raw = ir.sx(st[1])
                raws.append(raw)
                raws += [loc[x[1]] for x in ir.subterms(raw) if x[0] == "ref" and x[1] in loc]      # casts are looked for in the unsubstituted terms
                t = fs.subst_locals(raw, loc)
                atoms.append(t if st[2] else ("un", "!", t))
            elif st[0] == "ev" and is_stop(st[1]):
                stopped = True
                break
        end = path[-1]
        if stopped or end[0] == "escape" or end[0] == "throw" or any(st[0] == "throw" for st in path):
            n_rej += 1
            for st in path:
                if st[0] == "throw" and st[1] is not None and st[1].get("kind") == "CXXThrowExpr" and ir.ekids(st[1]):
                    thrown.append(ir.qtype(ir.ekids(st[1])[0]))
            continue
        if end[0] != "return":
            bad = (fn, "a path leaves at() without returning an element or rejecting the index")
            break
        n_ret += 1
        # an index or size converted to a signed type before the comparison is not the value being compared
        for t in raws:
            narrowing = [x for x in ir.subterms(t) if x[0] == "cast" and str(x[2]).replace("const ", "") in ("long", "int", "long long", "short", "signed char", "std::ptrdiff_t") and x[3][0] != "lit"]
            if narrowing:
                bad = (end[1], "the test `%s` compares after converting an unsigned index/size to the signed type %s: an index above PTRDIFF_MAX turns negative and is accepted" % (ir.show(t)[:120], narrowing[0][2]))
        if bad:
            break
        if not atoms:
            bad = (end[1], "the element is returned on a path that does not test the index against size()")
            break
        f = atoms[0]
        for t in atoms[1:]:
            f = ("bin", "&&", f, t)
        cases = guard_cases(f, symmap, nonneg)
        if not cases or not all(entails(fc, goal, nonneg) for fc, _, _ in cases):
            bad = (end[1], "the element is returned on a path whose conditions `%s` do not imply %s < size(): some index >= size() is not rejected" % (ir.show(f)[:140], pname))
            break
    if bad is None and n_ret == 0:
        bad = (fn, "no path returns an element")
    if bad is None and n_rej == 0:
        bad = (fn, "at() contains no path that %s" % ("terminates the process" if noexc else "throws"))
    if bad:
        rep.violates("C16.at", label, "bounds test", where=d.where(bad[0]), detail=bad[1])
        return
    rep.holds("C16.at", label, "bounds test", where=where, detail="%d returning path(s) imply %s < size(); %d rejecting path(s)%s" % (n_ret, pname, n_rej, " throw %s" % sorted(set(thrown)) if thrown else ""))
    if not noexc:
        bodies_ = [ir.body(fn)]
        for x in ir.walk_expr(ir.body(fn)):
            if is_stop(x):
                t_ = ir.sx(x)
                nm_ = (t_[1][2] if t_[1][0] == "mem" else ir.show(t_[1])).split("::")[-1]
                bodies_ += [ir.body(f_) for f_ in ir.functions(d, nm_) if ir.body(f_) is not None and "xspan" in (d.where(f_) or "")]
        thr_all = [ir.qtype(ir.ekids(x)[0]) for b_ in bodies_ for x in ir.walk_expr(b_) if x.get("kind") == "CXXThrowExpr" and ir.ekids(x)]
        if thr_all and not any("out_of_range" in t for t in thr_all):
            rep.violates("C16.at", label, "exception type", where=where, detail="throws %s, not std::out_of_range" % thr_all)
        elif not thr_all:
            rep.violates("C16.at", label, "bounds test", where=where, detail="the out-of-range branch does not throw")


def rule_shape(rep, d, methods, ctors, symmap):
    S = Lin({"S": 1})

    def one(name):
        fs = methods.get(name, [])
        return fs[0] if fs else None

    def ret_of(fn):
        r = [s for s in ir.kids(ir.body(fn)) if s.get("kind") == "ReturnStmt"]
        return ir.sx(ir.ekids(r[0])[0]) if len(r) == 1 else None

    def expect(name, ok, got, why):
        fn = one(name)
        if ok:
            rep.holds("C16.shape", "span::" + name, "definition", where=d.where(fn), detail=got)
        else:
            rep.violates("C16.shape", "span::" + name, "definition", where=d.where(fn), detail="%s; found `%s`" % (why, got))

    for name in ("begin", "end", "size_bytes", "empty", "front", "cbegin", "cend", "rbegin", "rend", "crbegin", "crend"):
        fn = one(name)
        if fn is None:
            rep.inconclusive("C16.shape", "span::" + name, "definition", detail="member not found")
            continue
        rt = ret_of(fn)
        got = ir.show(rt) if rt else "?"
        if rt is None:
            rep.inconclusive("C16.shape", "span::" + name, "definition", where=d.where(fn), detail="no single return")
            continue
        if name in ("begin", "end"):
            px, _ = data_plus(rt, symmap)
            want = Lin() if name == "begin" else S
            expect(name, px is not None and px == want, got, "%s() must be data() + %s" % (name, want.show()))
        elif name == "size_bytes":
            ok = rt[0] == "bin" and rt[1] == "*" and {str(lin(rt[2], symmap)), str(lin(rt[3], symmap))} & {str(S)} and any(
                x[0] == "sizeof" for x in (rt[2], rt[3]))
            sz = [x for x in (rt[2], rt[3]) if x[0] == "sizeof"] if rt[0] == "bin" else []
            ok = bool(ok) and bool(sz) and "element_type" in str(sz[0])
            expect(name, ok, got, "size_bytes() must be size() * sizeof(element_type)")
        elif name == "empty":
            f = nnf(rt)
            ok = False
            if f[0] == "atom":
                l, r = lin(f[2], symmap), lin(f[3], symmap)
                if l is not None and r is not None:
                    dd = l - r
                    ok = (f[1] == "==" and (dd == S or dd == -S)) or (f[1] == "<=" and dd == S) or (f[1] == "<" and dd == S + Lin({"": -1})) \
                        or (f[1] == ">=" and dd == -S) or (f[1] == ">" and dd == -S + Lin({"": 1}))
            expect(name, ok, got, "empty() must be equivalent to size() == 0")
        elif name == "front":
            # handled as element access by analyse_accessor; here only that it designates element 0
            px, _ = data_plus(deref_form(rt), symmap) if deref_form(rt) is not None else (None, None)
            expect(name, px is not None and px == Lin(), got, "front() must be *data()")
        elif name in ("cbegin", "cend"):
            want = ("call", ("ref", name[1:]))
            ok = rt == want or rt == ("call", ("mem", ("this",), name[1:]))
            if not ok:
                px, _ = data_plus(rt, symmap)
                ok = px is not None and px == (Lin() if name == "cbegin" else S)
            expect(name, ok, got, "%s() must equal %s()" % (name, name[1:]))
        else:
            base = {"rbegin": "end", "rend": "begin", "crbegin": "cend", "crend": "cbegin"}[name]
            alt = {"cend": "end", "cbegin": "begin"}.get(base, base)
            inner = rt
            while inner[0] in ("construct", "cast") and len(inner) >= 3:
                inner = inner[-1]
            ok = inner[0] == "call" and len(inner) == 2 and (inner[1] in (("ref", base), ("ref", alt)) or (inner[1][0] == "mem" and inner[1][2] in (base, alt)))
            expect(name, ok, got, "%s() must be a reverse iterator built from %s()" % (name, base))
    # constructors
    for c in ctors:
        ps = ir.params(c)
        inits = [k for k in ir.kids(c) if k.get("kind") == "CXXCtorInitializer"]
        if not inits:
            continue
        it = ir.sx(ir.ekids(inits[0])[0]) if ir.ekids(inits[0]) else None
        if it is None or it[0] != "construct" or len(it) != 4:
            continue
        ptypes = [ir.wtype(p) for p in ps]
        pnames = [p.get("name") for p in ps]
        label = "span::span(%s)" % ", ".join(ptypes)
        a, b = it[2], it[3]
        got = "storage_(%s, %s)" % (ir.show(a), ir.show(b))
        if len(ps) == 2 and all("pointer" in t for t in ptypes):
            want_b = Lin({pnames[1]: 1, pnames[0]: -1})
            lb = lin(b, lambda t: t[1] if t[0] == "ref" else None)
            ok = a == ("ref", pnames[0]) and lb == want_b
            (rep.holds if ok else rep.violates)("C16.shape", label, "storage initialiser", where=d.where(c),
                                                detail=got if ok else "pointer-pair constructor must store (first, last - first); found " + got)
        elif len(ps) == 2 and "pointer" in ptypes[0]:
            ok = a == ("ref", pnames[0]) and b == ("ref", pnames[1])
            (rep.holds if ok else rep.violates)("C16.shape", label, "storage initialiser", where=d.where(c),
                                                detail=got if ok else "pointer+count constructor must store (ptr, count); found " + got)
        # precondition of the two range constructors: a static-extent span covers exactly the range handed in
        if len(ps) == 2 and "pointer" in ptypes[0]:
            body = ir.body(c)
            exp_node, cond = find_expect([x for x in ir.walk_expr(body)] if body is not None else [])
            length = Lin({pnames[1]: 1}) if "pointer" not in ptypes[1] else Lin({pnames[1]: 1, pnames[0]: -1})

            def sm(t):
                if t[0] == "ref" and t[1] in pnames:
                    return t[1]
                if t[0] == "ref" and t[1] in ("extent", "Extent"):
                    return "E"
                return None
            if cond is None:
                rep.violates("C16.shape", label, "range precondition", where=d.where(c), detail="no TCB_SPAN_EXPECT on the count / pointer pair")
            else:
                bad = None
                for conj in dnf(nnf(cond)):
                    facts = []
                    is_dyn = False
                    for leaf in conj:
                        if leaf[0] != "atom":
                            continue
                        sides = (leaf[2], leaf[3])
                        if any(x == ("ref", "dynamic_extent") for x in sides):
                            if leaf[1] == "==":
                                is_dyn = True
                            continue
                        l_, r_ = lin(leaf[2], sm), lin(leaf[3], sm)
                        if l_ is not None and r_ is not None:
                            facts += atom_facts(leaf[1], l_, r_)
                    if is_dyn:
                        continue
                    if not (entails(facts, length - Lin({"E": 1}), ()) and entails(facts, Lin({"E": 1}) - length, ())):
                        bad = ir.show(cond)
                if bad:
                    rep.violates("C16.shape", label, "range precondition", where=d.where(exp_node),
                                 detail="for a static extent the check `%s` does not force the number of elements handed in to equal the extent: size() reports Extent "
                                        "while fewer (or more) elements were passed, so the view covers memory outside the caller's range" % bad[:120])
                else:
                    rep.holds("C16.shape", label, "range precondition", where=d.where(exp_node), detail="dynamic extent or length == extent")
        elif len(ps) == 1:
            nm = pnames[0]
            sa, sb = ir.show(a), ir.show(b)
            if "Container" in ptypes[0] or "cont" == nm:
                ok = sa in ("data(%s)" % nm, "detail::data(%s)" % nm, "%s.data()" % nm) and sb in ("size(%s)" % nm, "detail::size(%s)" % nm, "%s.size()" % nm)
                why = "container constructor must store (data(cont), size(cont))"
            elif "span<" in ptypes[0]:
                ok = sa == "%s.data()" % nm and sb == "%s.size()" % nm
                why = "converting constructor must store (other.data(), other.size())"
            else:
                ok = sa in (nm, "%s.data()" % nm, "data(%s)" % nm, "detail::data(%s)" % nm, "&%s[0]" % nm) and sb in ("N", "size(%s)" % nm, "detail::size(%s)" % nm, "%s.size()" % nm)
                why = "array constructor must store (arr[.data()], N)"
            (rep.holds if ok else rep.violates)("C16.shape", label, "storage initialiser", where=d.where(c), detail=got if ok else why + "; found " + got)


def rule_mode(rep):
    rep.rule("C16.mode", "contract-checking mode table: THROW -> contract_violation throws; TERMINATE (default without NDEBUG, C++14) -> "
                         "calls std::terminate; NDEBUG default -> checks compiled out")
    configs = []
    for mode, want in (("TCB_SPAN_THROW_ON_CONTRACT_VIOLATION", "throw"), ("TCB_SPAN_TERMINATE_ON_CONTRACT_VIOLATION", "terminate"),
                       ("TCB_SPAN_NO_CONTRACT_CHECKING", "off"), (None, None)):
        for ndebug in (False, True):
            defs = ([mode] if mode else []) + (["NDEBUG"] if ndebug else [])
            w = want if mode else ("off" if ndebug else "terminate")
            configs.append(((mode or "no mode macro") + (" + NDEBUG" if ndebug else ""), defs, [], w))
    for label, defines, extra, want in configs:
        d = cj.dump(DRIVER, "tcb", defines=defines)
        cvs = [f for f in ir.functions(d, name="contract_violation")]
        firsts = [f for f in ir.functions(d, name="first") if ir.is_template_pattern(d, f)]
        has_expect = any(find_expect(ir.kids(ir.body(f)))[1] is not None for f in firsts)
        if want == "off":
            ok = not has_expect
            got = "checks present" if has_expect else "checks compiled out"
        else:
            got = "no contract_violation"
            ok = False
            if cvs:
                b = cvs[0]
                thr = any(x.get("kind") == "CXXThrowExpr" for x in ir.walk_expr(b))
                term = any(x.get("kind") == "CallExpr" and ir.sx(x)[1][-1:] == ("terminate",) or (x.get("kind") == "CallExpr" and "terminate" in ir.show(ir.sx(x))) for x in ir.walk_expr(b))
                got = "throws" if thr else "terminates" if term else "returns normally"
                ok = has_expect and ((want == "throw" and thr) or (want == "terminate" and term and not thr))
        (rep.holds if ok else rep.violates)("C16.mode", "contract_violation", "mode " + label, scenario=label,
                                            detail=got if ok else "expected %s, found: %s (checks %s)" % (want, got, "present" if has_expect else "absent"))


def rule_assign(rep, d, methods):
    """copy assignment re-seats the view: pointer AND count are the source's afterwards.  The defaulted operator does that; a hand-written one is followed
    path-wise: a path that leaves the storage untouched must have established that `other` is this very object (a test on data() alone also holds for a
    shorter or longer view that starts at the same element)."""
    from .. import flow
    ops = [f for f in methods.get("operator=", []) if ir.params(f) and "span" in ir.qtype(ir.params(f)[0])]
    if not ops:
        rep.holds("C16.shape", "span::operator=", "copy assignment re-seats pointer and count", detail="defaulted (memberwise)", nontrivial=False)
        return
    for fn in ops:
        other = ir.params(fn)[0].get("name")
        bad = inc = None
        try:
            paths = flow.function_paths(fn, with_ctor_inits=False)
        except cj.AnalysisBroken:
            paths = []
            inc = "paths not enumerable"
        for path in paths:
            assigned = set()
            conds = []
            for st in path:
                if st[0] == "cond" and isinstance(st[1], dict):
                    conds.append((st[1], st[2]))
                if st[0] in ("ev", "return") and isinstance(st[1], dict):
                    for x in [st[1]] + list(ir.walk_expr(st[1])):
                        t = ir.sx(x)
                        if isinstance(t, tuple) and t and t[0] == "bin" and t[1] == "=":
                            lhs = ir.show(t[2])
                            if other in ir.show(t[3]):
                                assigned.add(lhs.replace("this->", "").replace("(*this).", ""))
            whole = any(a.endswith("storage_") for a in assigned)
            parts = any("ptr" in a for a in assigned) and any("size" in a for a in assigned)
            if whole or parts:
                continue
            # nothing (or only a part) was taken over on this path: it must be the self-assignment path
            ident = False
            for c_, truth in conds:
                t = ir.sx(c_)
                txt = re.sub(r"\s+", "", d.text(c_))
                if t[0] == "bin" and t[1] in ("==", "!=") and "this" in txt and ("&" + other) in txt and (t[1] == "==") == truth:
                    ident = True
            if ident:
                continue
            why = "; ".join("%s is %s" % (re.sub(r"\s+", " ", d.text(c_))[:40], truth) for c_, truth in conds) or "unconditionally"
            if assigned:
                bad = "a path takes over only `%s` from `%s` (%s)" % (", ".join(sorted(assigned)), other, why)
            else:
                bad = ("a path leaves pointer and count unchanged although `%s` may be a different view (%s): a view that starts at the same element but has another "
                       "length is not taken over" % (other, why))
            break
        lab = "span::operator=(%s)" % ir.qtype(ir.params(fn)[0])
        if bad:
            rep.violates("C16.shape", lab, "copy assignment re-seats pointer and count", where=d.where(fn), detail=bad)
        elif inc:
            rep.inconclusive("C16.shape", lab, "copy assignment re-seats pointer and count", where=d.where(fn), detail=inc)
        else:
            rep.holds("C16.shape", lab, "copy assignment re-seats pointer and count", where=d.where(fn), detail="%d path(s)" % len(paths))


def rule_free(rep, d):
    """the non-member first / last / subspan are the members of the same name applied to make_span(t), with the same arguments in the same order (`first(t, n)`
    written as `subspan(0, n)` turns a count of -1 into dynamic_extent = 'everything that is left')"""
    n = 0
    for fn in ir.functions(d):
        nm = fn.get("name")
        if nm not in ("first", "last", "subspan") or ir.enclosing_class(d, fn) is not None or not ir.is_template_pattern(d, fn):
            continue
        ps = [p_.get("name") for p_ in ir.params(fn)]
        rets = [x for x in ir.walk_expr(ir.body(fn)) if x.get("kind") == "ReturnStmt" and ir.ekids(x)]
        lab = "%s(%s) [non-member]" % (nm, ", ".join(ir.qtype(p_) for p_ in ir.params(fn)))
        n += 1
        if len(rets) != 1 or not ps:
            rep.inconclusive("C16.shape", lab, "forwards to the member of the same name", where=d.where(fn), detail="no single return")
            continue
        txt = re.sub(r"\s+", "", d.text(ir.ekids(rets[0])[0]))
        m = re.match(r"^make_span\((\w+)\)\.(?:template)?(\w+)(<[^()]*>)?\((.*)\)$", txt)
        if not m:
            rep.inconclusive("C16.shape", lab, "forwards to the member of the same name", where=d.where(fn), detail="returns `%s`" % txt[:70])
            continue
        obj, member, targs, args = m.group(1), m.group(2), m.group(3), m.group(4)
        want_args = ",".join(ps[1:])
        if obj != ps[0] or member != nm or args != want_args:
            rep.violates("C16.shape", lab, "forwards to the member of the same name", where=d.where(fn),
                         detail="returns `%s`, expected make_span(%s).%s(%s): the member's own contract (count <= size(), no dynamic_extent for a count) is what the "
                                "non-member promises" % (txt[:70], ps[0], nm, want_args))
        else:
            rep.holds("C16.shape", lab, "forwards to the member of the same name", where=d.where(fn), detail=txt[:70])
    if n < 6:
        rep.broke("C16.shape: only %d of the 6 non-member first/last/subspan overloads found" % n)


def rule_types(rep):
    from ..witness import WitnessTU
    rep.rule("C16.types", "static sub-view types carry exactly the requested extent: first<N>/last<N> -> span<T,N>; subspan<O,C> -> "
                          "span<T,C>; subspan<O> -> span<T,E-O> on a static parent and dynamic on a dynamic one; dynamic calls -> dynamic")
    w = WitnessTU('#include "xtl/xspan.hpp"\n#include <type_traits>\n#include <utility>\nusing xtl::span; constexpr std::ptrdiff_t dyn = xtl::dynamic_extent;\n')
    for E in (8, 5, "dyn"):
        P = "span<int, %s>" % E
        for n in (0, 1, 3, 5):
            w.same("decltype(std::declval<%s>().first<%d>())" % (P, n), "span<int, %d>" % n, "C16.types", "first<N>", "return type", "%s N=%d" % (P, n))
            w.same("decltype(std::declval<%s>().last<%d>())" % (P, n), "span<int, %d>" % n, "C16.types", "last<N>", "return type", "%s N=%d" % (P, n))
            exp = "span<int, dyn>" if E == "dyn" else "span<int, %d>" % (E - n)
            w.same("decltype(std::declval<%s>().subspan<%d>())" % (P, n), exp, "C16.types", "subspan<O>", "return type", "%s O=%d" % (P, n))
            for c in (0, 2):
                w.same("decltype(std::declval<%s>().subspan<%d, %d>())" % (P, n, c), "span<int, %d>" % c, "C16.types", "subspan<O,C>", "return type", "%s O=%d C=%d" % (P, n, c))
        for call in ("first(2)", "last(2)", "subspan(1)", "subspan(1, 2)"):
            w.same("decltype(std::declval<%s>().%s)" % (P, call), "span<int, dyn>", "C16.types", call.split("(")[0] + "(dynamic)", "return type", P)
        w.must_hold("std::is_same<typename %s::index_type, std::size_t>::value" % P, "C16.types", "index_type", "is size_t", P)
    # a container is viewed only as elements of its own type (cv-qualification may be added): the stride of the view is the stride of the storage
    w.raw("#include <vector>\n#include <array>\nnamespace wc { struct Base { int x; }; struct Derived : Base { int y; }; }")
    for e, want in (("std::is_constructible<span<wc::Base>, std::vector<wc::Derived>&>::value", "false"),
                    ("std::is_constructible<span<const wc::Base>, const std::vector<wc::Derived>&>::value", "false"),
                    ("std::is_constructible<span<wc::Base, 2>, std::array<wc::Derived, 2>&>::value", "false"),
                    ("std::is_constructible<span<const wc::Base>, std::array<wc::Derived, 2>&>::value", "false"),
                    ("std::is_constructible<span<int>, const std::vector<int>&>::value", "false"),
                    ("std::is_constructible<span<const int>, std::vector<int>&>::value", "true"),
                    ("std::is_constructible<span<const int>, const std::vector<int>&>::value", "true"),
                    ("std::is_constructible<span<int>, std::vector<int>&>::value", "true"),
                    ("std::is_constructible<span<int, 3>, std::array<int, 3>&>::value", "true"),
                    ("std::is_constructible<span<const wc::Derived>, std::vector<wc::Derived>&>::value", "true"),
                    ("std::is_constructible<span<wc::Base>, span<wc::Derived>>::value", "false"),
                    ("std::is_constructible<span<const int>, span<int>>::value", "true")):
        w.must_hold("%s == %s" % (e, want), "C16.types", "span(Container&)", "element type compatibility", e.replace("std::is_constructible", "constructible").replace("::value", ""))
    # make_span views the whole object it is given: every element of an array (a char array's terminator included), with the element type as it is
    for e, want in (("make_span(std::declval<int(&)[3]>())", "span<int, 3>"), ("make_span(std::declval<const int(&)[3]>())", "span<const int, 3>"),
                    ("make_span(std::declval<const char(&)[4]>())", "span<const char, 4>"), ("make_span(std::declval<char(&)[4]>())", "span<char, 4>"),
                    ("make_span(std::declval<const unsigned char(&)[2]>())", "span<const unsigned char, 2>"),
                    ("make_span(std::declval<std::array<int, 3>&>())", "span<int, 3>"), ("make_span(std::declval<const std::array<int, 3>&>())", "span<const int, 3>"),
                    ("make_span(std::declval<std::vector<int>&>())", "span<int, dyn>"), ("make_span(std::declval<const std::vector<int>&>())", "span<const int, dyn>")):
        w.same("decltype(tcb::%s)" % e, want, "C16.types", "make_span", "views every element with its own type", e)
    w.run(rep, defines=["TCB_SPAN_THROW_ON_CONTRACT_VIOLATION"])
    # the bodies of the static sub-view members must instantiate for every count incl. 0, with both compilers (decltype above does not instantiate them)
    for comp in ("g++", "clang++"):
        w2 = WitnessTU('#include "xtl/xspan.hpp"\nusing xtl::span; constexpr std::ptrdiff_t dyn = xtl::dynamic_extent;\n')
        fid = [0]

        def fname():
            fid[0] += 1
            return "f%d" % fid[0]
        for E in (4, "dyn"):
            P = "span<int, %s>" % E
            for n in (0, 1, 4):
                w2.must_compile("void %s(%s s) { (void)s.first<%d>(); (void)s.last<%d>(); (void)s.subspan<%d>(); (void)s.subspan<%d, 0>(); (void)s.subspan<0, %d>(); }" % (fname(), P, n, n, n, n, n),
                                "C16.types", "first/last/subspan<%d>" % n, "bodies instantiate", "%s, %s" % (P, comp))
            w2.must_compile("void %s(%s s) { (void)s.first(0); (void)s.last(0); (void)s.subspan(0); (void)s.subspan(0, 0); (void)s[0]; (void)s.front(); (void)s.back(); (void)s.at(0); }" % (fname(), P),
                            "C16.types", "dynamic sub-views", "bodies instantiate", "%s, %s" % (P, comp))
        w2.run(rep, std="gnu++14" if comp == "g++" else "gnu++17", compiler=comp, defines=["TCB_SPAN_THROW_ON_CONTRACT_VIOLATION"])


def run(tier):
    rep = Report("C16", tier, "other",
                 "Symbolic (linear-arithmetic) check on the span class-template pattern: for every sub-view / element accessor the "
                 "contract condition, restricted to wrap-free atoms, must entail that the returned {pointer, count} or reference lies "
                 "inside the parent; at() must reject every index >= size(); observers/iterators/constructors must have their defining "
                 "shape; the contract-mode table is read from three configurations.  Decides the structural part, not caller-side validity.",
                 trusted_base=["clang 14 AST of the class-template pattern", "sa/linear.py entailment (0/1 combinations of facts)"],
                 assumptions=["size() == Extent for static-extent spans", "index_type is unsigned (size_t)"])
    rep.rule("C16.range", "the contract of each accessor entails that the returned view {data()+X, Y} satisfies 0 <= X, X + Y <= size() "
                          "(or 0 <= X < size() for a reference)")
    rep.rule("C16.exact", "first/last/subspan return exactly {data(), n}, {data()+size()-n, n}, {data()+offset, n or size()-offset}")
    rep.rule("C16.wrap", "no bounds check relies on an unsigned addition of two unbounded operands or on an unordered subtraction")
    rep.rule("C16.at", "at(idx) throws std::out_of_range for every idx >= size()")
    rep.rule("C16.shape", "observers, iterators and constructors have their defining shape (begin=data(), end=data()+size(), ...)")
    d = cj.dump(DRIVER, "tcb", defines=["TCB_SPAN_THROW_ON_CONTRACT_VIOLATION"])
    rep.cmd(d.cmd)
    symmap = symmap_factory(())
    methods = {}
    ctors = []
    for fn in ir.functions(d):
        cls = ir.enclosing_class(d, fn)
        if cls is None or cls.get("name") != "span" or not ir.is_template_pattern(d, fn):
            continue
        if fn.get("kind") == "CXXConstructorDecl":
            ctors.append(fn)
        else:
            methods.setdefault(fn.get("name"), []).append(fn)
    HELPERS.clear()
    for nm, fl in methods.items():
        if nm in ("first", "last", "subspan", "operator[]", "at", "front", "back", "begin", "end", "size_bytes", "empty", "data", "size", "cbegin", "cend",
                  "rbegin", "rend", "crbegin", "crend") or nm.startswith("operator"):
            continue
        for f_ in fl:
            ks_ = ir.kids(ir.body(f_)) if ir.body(f_) else []
            if len(ks_) == 1 and ks_[0].get("kind") == "ReturnStmt" and ir.ekids(ks_[0]) and ir.params(f_):
                HELPERS[nm] = f_
    need = ["first", "last", "subspan", "operator[]", "at", "front", "back", "begin", "end", "size_bytes", "empty"]
    missing = [n for n in need if n not in methods]
    if missing:
        raise cj.AnalysisBroken("span members not found in the class-template pattern: %s" % missing)
    for name in ("first", "last", "subspan", "operator[]", "front", "back"):
        for fn in methods[name]:
            analyse_accessor(rep, d, fn, symmap)
    # the deprecated call operator is one more element accessor: the same contract
    for fn in methods.get("operator()", []):
        analyse_accessor(rep, d, fn, symmap)
    for fn in methods["at"]:
        rule_at(rep, d, fn, symmap)
    # the same member without exceptions: the out-of-range branch must reach std::terminate under the same test
    dn = cj.dump(DRIVER, "tcb", defines=["TCB_SPAN_TERMINATE_ON_CONTRACT_VIOLATION"], extra=["-fno-exceptions"])
    rep.cmd(dn.cmd)
    ats = [f for f in ir.functions(dn, "at") if (ir.enclosing_class(dn, f) or {}).get("name") == "span" and ir.is_template_pattern(dn, f)]
    if not ats:
        rep.inconclusive("C16.at", "span::at(idx) [-fno-exceptions]", "bounds test", detail="at() not found in the -fno-exceptions dump")
    for fn in ats:
        rule_at(rep, dn, fn, symmap, noexc=True)
    rule_shape(rep, d, methods, ctors, symmap)
    rule_assign(rep, d, methods)
    rule_free(rep, d)
    rule_mode(rep)
    rule_types(rep)
    rep.unit("span<ElementType, Extent> pattern: %d methods, %d constructors" % (sum(len(v) for v in methods.values()), len(ctors)))
    return rep
