"""C17 — static_dispatcher decided on INSTANTIATIONS: the dispatcher is instantiated for three unrelated classes (symmetric and not), and
dispatch(lhs, rhs, exec) is executed abstractly for every pair of dynamic types, following every call through the callee clang resolved
(so overload selection by the swap flag, tag dispatch, helper functions and early returns are all seen through).  The only abstract fact is
the dynamic type of the two operands: dynamic_cast<T*>(&x) yields x exactly when x's dynamic type is T (the classes are unrelated leaves)."""
from .. import clangjson as cj
from .. import ir

DRIVER = r'''
#include "xtl/xmultimethods.hpp"
namespace wxtl {
struct Base { virtual ~Base(); };
struct A : Base {}; struct B : Base {}; struct C : Base {}; struct Other : Base {};
struct Exec { template <class X, class Y> int run(X&, Y&) const; int on_error(Base&, Base&) const; };
using L = xtl::mpl::vector<A, B, C>;
using SymD = xtl::static_dispatcher<Exec, Base, L, int, xtl::symmetric_dispatch>;
using AsymD = xtl::static_dispatcher<Exec, Base, L, int, xtl::antisymmetric_dispatch>;
using R2 = xtl::mpl::vector<C, B>;
using SymD2 = xtl::static_dispatcher<Exec, Base, L, int, xtl::symmetric_dispatch, Base, R2>;
using AsymD2 = xtl::static_dispatcher<Exec, Base, L, int, xtl::antisymmetric_dispatch, Base, R2>;
int use(Base& x, Base& y, Exec& e) { return SymD::dispatch(x, y, e) + AsymD::dispatch(x, y, e) + SymD2::dispatch(x, y, e) + AsymD2::dispatch(x, y, e); }
}
'''
TYPES = ["A", "B", "C"]


class Stuck(Exception):
    pass


def _short(q):
    q = (q or "").replace("wxtl::", "").replace("struct ", "").replace("const ", "").replace("class ", "")
    return q.replace("&", "").replace("*", "").strip()


class Sim:
    def __init__(self, d, dyn):
        self.d = d
        self.dyn = dyn            # operand name -> dynamic type
        self.depth = 0

    def call_fn(self, fn, args):
        if self.depth > 40:
            raise Stuck("recursion depth")
        env = {}
        for p, a in zip(ir.params(fn), args):
            env[p.get("id")] = a
        # local type aliases of this instantiation (using candidate = mpl::front_t<list>): name -> what it denotes here
        al = {}
        for x in ir.walk_expr(ir.body(fn)):
            if x.get("kind") in ("TypeAliasDecl", "TypedefDecl"):
                t_ = x.get("type") or {}
                al[x.get("name")] = t_.get("desugaredQualType") or t_.get("qualType") or ""
        env["__aliases__"] = al
        self.depth += 1
        try:
            r = self.block(ir.kids(ir.body(fn)), env)
        finally:
            self.depth -= 1
        if r is None:
            raise Stuck("%s falls off its end" % fn.get("name"))
        return r

    def block(self, stmts, env):
        for s in stmts:
            r = self.stmt(s, env)
            if r is not None:
                return r
        return None

    def stmt(self, s, env):
        k = s.get("kind")
        if k == "CompoundStmt":
            return self.block(ir.kids(s), env)
        if k == "DeclStmt":
            for v in ir.kids(s):
                if v.get("kind") == "VarDecl" and ir.ekids(v):
                    try:
                        env[v.get("id")] = self.ev(ir.ekids(v)[-1], env)
                    except Stuck:
                        env[v.get("id")] = ("opaque",)
            return None
        if k == "IfStmt":
            raw = [c for c in s.get("inner", []) if isinstance(c, dict)]
            i = 0
            if s.get("hasVar"):
                self.stmt(raw[0], env)        # the condition variable
                i = 1
            cond = raw[i]
            c = self.truth(self.ev(cond, env))
            then = raw[i + 1]
            els = raw[i + 2] if len(raw) > i + 2 else None
            if c:
                return self.stmt(then, env)
            return self.stmt(els, env) if els is not None else None
        if k == "ReturnStmt":
            ks = ir.ekids(s)
            return ("ret", self.ev(ks[0], env)) if ks else ("ret", None)
        if k in ("NullStmt", "StaticAssertDecl", "TypeAliasDecl", "UsingDecl"):
            return None
        self.ev(s, env)
        return None

    def truth(self, v):
        if v[0] == "ptr":
            return True
        if v[0] == "null":
            return False
        if v[0] == "bool":
            return v[1]
        raise Stuck("condition on %s" % (v,))

    def ev(self, n, env):
        k = n.get("kind")
        ks = ir.ekids(n)
        if k in ir.WRAPPERS or k in ("ImplicitCastExpr", "CXXStaticCastExpr", "CXXFunctionalCastExpr", "CXXConstCastExpr", "CStyleCastExpr", "ConstantExpr"):
            if k == "ConstantExpr" and "value" in n:
                return ("bool", n["value"] not in ("false", "0", 0)) if ir.qtype(n) == "bool" else ("opaque",)
            if not ks:
                return ("opaque",)
            return self.ev(ks[-1], env)
        if k == "DeclRefExpr":
            rid = (n.get("referencedDecl") or {}).get("id")
            if rid in env:
                return env[rid]
            return ("opaque",)
        if k == "CXXNullPtrLiteralExpr" or k == "GNUNullExpr":
            return ("null",)
        if k == "IntegerLiteral":
            return ("null",) if n.get("value") == "0" else ("opaque",)
        if k == "CXXBoolLiteralExpr":
            return ("bool", bool(n.get("value")))
        if k == "UnaryOperator":
            op = n.get("opcode")
            v = self.ev(ks[0], env)
            if op == "&":
                return ("ptr", v) if v[0] == "obj" else ("opaque",)
            if op == "*":
                if v[0] == "ptr":
                    return v[1]
                if v[0] == "null":
                    raise Stuck("null pointer dereferenced")
                return ("opaque",)
            if op == "!":
                return ("bool", not self.truth(v))
            return ("opaque",)
        if k == "BinaryOperator" and n.get("opcode") in ("==", "!="):
            a, b = self.ev(ks[0], env), self.ev(ks[1], env)
            if {a[0], b[0]} <= {"ptr", "null"}:
                same = (a[0] == b[0] == "null") or (a[0] == b[0] == "ptr" and a[1] == b[1])
                return ("bool", same == (n.get("opcode") == "=="))
            raise Stuck("comparison of %s and %s" % (a[0], b[0]))
        if k == "BinaryOperator" and n.get("opcode") in ("&&", "||"):
            a = self.truth(self.ev(ks[0], env))
            if a == (n.get("opcode") == "||"):
                return ("bool", a)
            return ("bool", self.truth(self.ev(ks[1], env)))
        if k == "ConditionalOperator":
            return self.ev(ks[1] if self.truth(self.ev(ks[0], env)) else ks[2], env)
        if k == "CXXDynamicCastExpr":
            to = _short((n.get("type") or {}).get("desugaredQualType") or ir.qtype(n))
            for _ in range(3):                       # through local aliases (candidate = front_t<list>)
                if to in env.get("__aliases__", {}):
                    to = _short(env["__aliases__"][to])
            v = self.ev(ks[0], env)
            if v[0] == "ptr" and v[1][0] == "obj":
                o = v[1]
                if self.dyn[o[1]] == to:
                    return ("ptr", ("obj", o[1], to))
                if to == "Base":
                    return ("ptr", ("obj", o[1], "Base"))
                return ("null",)
            raise Stuck("dynamic_cast of %s" % (v,))
        if k in ("CXXConstructExpr", "CXXTemporaryObjectExpr", "CXXUnresolvedConstructExpr", "InitListExpr", "CXXScalarValueInitExpr"):
            if len(ks) == 1:
                try:
                    return self.ev(ks[0], env)
                except Stuck:
                    return ("opaque",)
            return ("opaque",)
        if k == "CXXMemberCallExpr":
            c = ir.strip(ks[0])
            nm = c.get("name")
            args = [self.ev(a, env) for a in ks[1:]]
            if nm in ("run", "on_error"):
                return (nm,) + tuple((a[1], a[2]) if a[0] == "obj" else a for a in args)
            raise Stuck("member call %s" % nm)
        if k == "CallExpr":
            c = ir.strip(ks[0])
            tgt = self.d.by_id.get((c.get("referencedDecl") or {}).get("id")) if c.get("kind") == "DeclRefExpr" else None
            nm = (c.get("referencedDecl") or {}).get("name")
            if nm in ("move", "forward", "addressof") and len(ks) == 2:
                v = self.ev(ks[1], env)
                return ("ptr", v) if nm == "addressof" and v[0] == "obj" else v
            if tgt is None or ir.body(tgt) is None:
                raise Stuck("call of %s, which has no body here" % nm)
            r = self.call_fn(tgt, [self.ev(a, env) for a in ks[1:]])
            return r[1] if r[0] == "ret" else r
        raise Stuck("expression kind %s" % k)


def rule_static(rep):
    rep.rule("C17.static", "static_dispatcher instantiated over (A, B, C), with the same and with a different (C, B) rhs list: for every pair of dynamic types dispatch() ends in exec.run on the two "
                           "operands cast to exactly those types - in (lhs, rhs) order, swapped exactly when the dispatcher is symmetric and the rhs type "
                           "precedes the lhs type in the list - and in exec.on_error(lhs, rhs) when a dynamic type is not in the list")
    d = cj.dump(DRIVER, "xtl::")
    rep.cmd(d.cmd)
    R = "C17.static"
    found = 0
    for cls in d.walk():
        if cls.get("kind") != "ClassTemplateSpecializationDecl" or cls.get("name") != "static_dispatcher":
            continue
        targs = " ".join(ir.template_args(cls))
        if "wxtl::Exec" not in targs:
            continue
        sym = "antisymmetric_dispatch" not in targs
        rtypes = ["C", "B"] if targs.count("mpl::vector") >= 2 and "vector<wxtl::C, wxtl::B>" in targs.replace("struct ", "") else TYPES
        entry = [f for f in ir.kids(cls) if f.get("kind") == "CXXMethodDecl" and f.get("name") == "dispatch" and ir.has_body(f)]
        if not entry:
            continue
        found += 1
        label = "static_dispatcher<%s, lhs (A,B,C), rhs (%s)>::dispatch" % ("symmetric" if sym else "antisymmetric", ",".join(rtypes))
        where = d.where(entry[0])
        for X in TYPES + ["Other"]:
            for Y in TYPES + ["Other"]:
                scen = "lhs is a %s, rhs is a %s" % (X, Y)
                sim = Sim(d, {"lhs": X, "rhs": Y})
                try:
                    r = sim.call_fn(entry[0], [("obj", "lhs", "Base"), ("obj", "rhs", "Base"), ("exec",)])
                    got = r[1] if r[0] == "ret" else r
                except Stuck as e:
                    rep.inconclusive(R, label, "handler selection", where=where, scenario=scen, detail=str(e))
                    continue
                if X == "Other" or Y == "Other" or Y not in rtypes:
                    ok = got is not None and got[0] == "on_error" and [a[0] for a in got[1:3]] == ["lhs", "rhs"]
                    want = "exec.on_error(lhs, rhs)"
                else:
                    swap = sym and rtypes.index(Y) < TYPES.index(X)
                    want_t = ("run", ("rhs", Y), ("lhs", X)) if swap else ("run", ("lhs", X), ("rhs", Y))
                    ok = got is not None and tuple(got[:3]) == want_t
                    want = "exec.run(%s)" % ", ".join("%s as %s" % a for a in want_t[1:])

                def sh(g):
                    if g is None:
                        return "nothing"
                    return "exec.%s(%s)" % (g[0], ", ".join(("%s as %s" % a) if isinstance(a, tuple) and len(a) == 2 else str(a) for a in g[1:]))
                if ok:
                    rep.holds(R, label, "handler selection", where=where, scenario=scen, detail=sh(got))
                else:
                    rep.violates(R, label, "handler selection", where=where, scenario=scen, detail="ends in %s, expected %s" % (sh(got), want))
    if found < 4:
        rep.broke("C17.static: the four static_dispatcher instantiations were not found (%d)" % found)
