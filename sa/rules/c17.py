"""C17 — multimethods and visitors call exactly the handler for the dynamic types.

Each dispatcher / visitor function (template pattern) is rendered in a canonical form (parameters p0.., locals l0..)
and compared with the discipline its role requires: error paths, head/tail recursion over the type lists, the
symmetric-swap condition, registration that replaces, argument order.  The run-time state of the fast dispatcher's
lazily assigned class indices across registration histories is not decided.
"""
import re
from .. import clangjson as cj
from .. import ir
from ..report import Report

DRIVER = '#include "xtl/xmultimethods.hpp"\n#include "xtl/xvisitor.hpp"\n'


def canon_fn(d, fn):
    """statement renderings with parameters renamed p0.., locals l0.."""
    names = {}
    for i, p in enumerate(ir.params(fn)):
        if p.get("name"):
            names[p["name"]] = "p%d" % i
    nloc = [0]
    out = []

    def ren(t):
        if not isinstance(t, tuple):
            return t
        if t[0] == "ref" and t[1] in names:
            return ("ref", names[t[1]])
        if t[0] == "lambda":
            return ("lambda",)
        return (t[0],) + tuple(ren(x) for x in t[1:])

    def decl(v):
        names[v["name"]] = "l%d" % nloc[0]
        nloc[0] += 1

    def stmt(s, depth):
        k = s.get("kind")
        pre = "  " * depth
        if k == "CompoundStmt":
            for c in ir.kids(s):
                stmt(c, depth)
        elif k == "DeclStmt":
            for v in ir.kids(s):
                if v.get("kind") == "VarDecl":
                    init = ir.ekids(v)
                    it = ren(ir.sx(init[-1])) if init else None
                    decl(v)
                    out.append(pre + "%s := %s" % (names[v["name"]], ir.show(it) if it else "-"))
                elif v.get("kind") == "TypeAliasDecl":
                    out.append(pre + "using %s = %s" % (v.get("name"), re.sub(r"\s+", "", (v.get("type") or {}).get("qualType", ""))))
        elif k == "IfStmt":
            raw = [c for c in s.get("inner", []) if isinstance(c, dict)]
            ks = ir.ekids(s)
            if ks and ks[0].get("kind") == "DeclStmt":
                v = [x for x in ir.kids(ks[0]) if x.get("kind") == "VarDecl"][0]
                it = ren(ir.sx(ir.ekids(v)[-1])) if ir.ekids(v) else None
                decl(v)
                out.append(pre + "if (%s := %s)" % (names[v["name"]], ir.show(it)))
                rest = ks[2:]
            else:
                out.append(pre + "if %s" % ir.show(ren(ir.sx(ks[0]))))
                rest = ks[1:]
            stmt(rest[0], depth + 1)
            if len(rest) > 1:
                out.append(pre + "else")
                stmt(rest[1], depth + 1)
        elif k == "ReturnStmt":
            ks = ir.ekids(s)
            out.append(pre + "return %s" % (ir.show(ren(ir.sx(ks[0]))) if ks else ""))
        elif k == "NullStmt":
            pass
        else:
            out.append(pre + ir.show(ren(ir.sx(s))))
    stmt(ir.body(fn), 0)
    return out


def same(a, b):
    norm = lambda s: re.sub(r"\s+", " ", s.strip())
    return [norm(x) for x in a] == [norm(x) for x in b]


def strip_static_assert(lines):
    return [l for l in lines if "StaticAssertDecl" not in l]


def check(rep, rule, d, fn, label, construct, got, alts, why):
    got = strip_static_assert(got)
    if any(same(got, a) for a in alts):
        rep.holds(rule, label, construct, where=d.where(fn), detail=" ; ".join(x.strip() for x in got)[:200])
        return
    want = alts[0]
    if len(got) != len(want):
        rep.inconclusive(rule, label, construct, where=d.where(fn),
                         detail="body has a different structure (%d statements, discipline written for %d): `%s`" % (len(got), len(want), " ; ".join(x.strip() for x in got)[:200]))
        return
    i = next(i for i, (x, y) in enumerate(zip(got, want)) if re.sub(r"\s+", " ", x.strip()) != re.sub(r"\s+", " ", y.strip()))
    rep.violates(rule, label, construct, where=d.where(fn),
                 detail="%s: found `%s`, required `%s`" % (why, got[i].strip(), want[i].strip()))


def run(tier):
    rep = Report("C17", tier, "other",
                 "Pattern-level discipline rules for static_dispatcher, basic_dispatcher, basic_fast_dispatcher, functor_dispatcher and the "
                 "visitors: error handling before use, head/tail recursion over type lists, symmetric swap condition, replacing "
                 "registration, growing-only resize, argument order.  Registration/erasure histories of the fast dispatcher's lazily "
                 "assigned class indices are run-time state and not decided.",
                 trusted_base=["clang 14 AST of the template patterns", "role table in sa/rules/c17.py"],
                 assumptions=["std::map, std::vector, dynamic_cast and typeid behave as specified"])
    rep.rule("C17.err", "a missing handler is reported before anything is called: lookup result compared with end() before use, "
                        "check_size before each subscript, empty type lists call on_error, a failed visitor cast goes to the configured catch_all policy")
    rep.rule("C17.rec", "each dispatch step casts to the HEAD of its type list and recurses on the TAIL; the lhs step continues with the full rhs list")
    rep.rule("C17.sym", "the swapped call exec.run(rhs, lhs) is selected exactly by symmetric && rhs_index < lhs_index with both indices "
                        "taken by index_of on the matching lists")
    rep.rule("C17.args", "registration replaces any previous handler for the same key, keys are built from the registered/dynamic types in "
                         "order, handlers receive the dispatched arguments cast position-wise followed by the undispatched ones")
    rep.rule("C17.fast", "fast dispatcher tables only grow (resize is guarded by size <= index or a fresh index), insertion/dispatch descend "
                         "one level per dispatched argument")
    d = cj.dump(DRIVER, "xtl::")
    rep.cmd(d.cmd)
    fns = {}
    for fn in ir.functions(d):
        if not ir.is_template_pattern(d, fn):
            continue
        cls = ir.enclosing_class(d, fn)
        if cls is None:
            continue
        key = (cls.get("name"), fn.get("name"))
        fns.setdefault(key, []).append(fn)

    def get(cls, name, pred=None):
        c = [f for f in fns.get((cls, name), []) if pred is None or pred(f)]
        if not c:
            rep.broke("anchor %s::%s not found" % (cls, name))
            return None
        return c[0]
    ptypes = lambda f: [ir.wtype(p) for p in ir.params(f)]
    SD = "static_dispatcher"
    # ---- static dispatcher ----
    f = get(SD, "invoke_executor", lambda f: "false_type" in ptypes(f)[-1])
    if f:
        check(rep, "C17.sym", d, f, SD + "::invoke_executor(false_type)", "argument order", canon_fn(d, f), [["return p2.run(p0, p1)"]], "not swapped")
    f = get(SD, "invoke_executor", lambda f: "true_type" in ptypes(f)[-1])
    if f:
        check(rep, "C17.sym", d, f, SD + "::invoke_executor(true_type)", "argument order", canon_fn(d, f), [["return p2.run(p1, p0)"]], "swapped")
    for which in ("dispatch_rhs", "dispatch_lhs"):
        f = get(SD, which, lambda f: ptypes(f)[-1].replace(" ", "") == "mpl::vector<>")
        if f:
            check(rep, "C17.err", d, f, "%s::%s(empty list)" % (SD, which), "no match -> on_error", canon_fn(d, f), [["return p2.on_error(p0, p1)"]],
                  "an exhausted type list must report the error")
    f = get(SD, "dispatch_rhs", lambda f: "T, U..." in ptypes(f)[-1])
    if f:
        got = canon_fn(d, f)
        want = ["if (l0 := (T *)&p1)",
                "  l1 := mpl::index_of<lhs_type_list,lhs_type>::value",
                "  l2 := mpl::index_of<rhs_type_list,T>::value",
                "  using invoke_flag = std::integral_constant<bool,std::is_same<symmetric,symmetric_dispatch>::value&&(rhs_index<lhs_index)>",
                "  return invoke_executor(p0, *l0, p2, invoke_flag{})",
                "return dispatch_rhs(p0, p1, p2, mpl::vector<U...>{})"]
        g2 = [re.sub(r"\s+", "", x) if x.strip().startswith(("l1 :=", "l2 :=", "using")) else x for x in got]
        w2 = [re.sub(r"\s+", "", x) if x.strip().startswith(("l1 :=", "l2 :=", "using")) else x for x in want]
        # split into the three concerns
        check(rep, "C17.rec", d, f, SD + "::dispatch_rhs(T, U...)", "head cast / tail recursion", [g2[0], g2[-1]], [[w2[0], w2[-1]]],
              "must cast rhs to the head type T and recurse on the tail U...")
        check(rep, "C17.sym", d, f, SD + "::dispatch_rhs(T, U...)", "swap condition", g2[1:4], [w2[1:4], [w2[2], w2[1], w2[3]]],
              "swap only when symmetric and rhs_index < lhs_index, indices from index_of on the matching lists")
        check(rep, "C17.args", d, f, SD + "::dispatch_rhs(T, U...)", "executor call", [g2[4]], [[w2[4]]], "must pass (lhs, *p, exec, invoke_flag())")
    f = get(SD, "dispatch_lhs", lambda f: "T, U..." in ptypes(f)[-1])
    if f:
        check(rep, "C17.rec", d, f, SD + "::dispatch_lhs(T, U...)", "head cast / tail recursion", canon_fn(d, f),
              [["if (l0 := (T *)&p0)", "  return dispatch_rhs(*l0, p1, p2, rhs_type_list{})", "return dispatch_lhs(p0, p1, p2, mpl::vector<U...>{})"]],
              "must cast lhs to the head type, continue with the full rhs list, recurse on the tail")
    f = get(SD, "dispatch")
    if f:
        check(rep, "C17.rec", d, f, SD + "::dispatch", "entry", canon_fn(d, f), [["return dispatch_lhs(p0, p1, p2, lhs_type_list{})"]], "must start with the full lhs list")
    # ---- basic dispatcher ----
    BD = "basic_dispatcher"
    f = get(BD, "make_key")
    if f:
        check(rep, "C17.args", d, f, BD + "::make_key", "key from the type pack", canon_fn(d, f),
              [["return void{void{pack((std::type_index)typeid(const std::type_info))}}"]], "key = type_index(typeid(U))...")
        if "typeid(U)" not in d.text(f):
            rep.violates("C17.args", BD + "::make_key", "key from the type pack", where=d.where(f), detail="the key is not built from typeid(U)...")
    f = get(BD, "insert")
    if f:
        got = strip_static_assert(canon_fn(d, f))
        alts = [["(m_callback_map[make_key()] = move(p0))"], ["m_callback_map.insert_or_assign(make_key(), move(p0))"]]
        if any(same(got, a) for a in alts) and "make_key<D...>" in d.text(f):
            rep.holds("C17.args", BD + "::insert", "registration replaces", where=d.where(f), detail=got[0])
        elif len(got) == 1 and re.search(r"\.(emplace|insert|try_emplace)\(", got[0]):
            rep.violates("C17.args", BD + "::insert", "registration replaces", where=d.where(f),
                         detail="`%s` keeps an already registered handler for the same type tuple: re-registration must replace it" % got[0])
        else:
            check(rep, "C17.args", d, f, BD + "::insert", "registration replaces", got, alts, "registration must assign the handler under the key of D...")
    f = get(BD, "erase")
    if f:
        body_txt = " ; ".join(canon_fn(d, f))
        if ("lower_bound" in body_txt or "upper_bound" in body_txt) and "erase(" in body_txt and not re.search(r"first\s*==|==\s*[^;]*first|key_comp|!\s*\(.*<.*first", body_txt):
            rep.violates("C17.args", BD + "::erase", "erases the key of D...", where=d.where(f),
                         detail="the entry found by lower_bound/upper_bound is erased without testing that its key equals the key of D...: erasing an unregistered tuple "
                                "removes the NEXT registered handler (`%s`)" % body_txt[:160])
        else:
            check(rep, "C17.args", d, f, BD + "::erase", "erases the key of D...", canon_fn(d, f), [["m_callback_map.erase(make_key())"]], "must erase exactly that key")
    f = get(BD, "dispatch")
    if f:
        got = canon_fn(d, f)
        want = ["l0 := void{void{pack((std::type_index)typeid(const std::type_info))}}", "l1 := m_callback_map.find(l0)",
                "if (l1 == m_callback_map.end())", "  throw((std::runtime_error)\"callback not found\")", "return l1.second(pack(p0), pack(p1))"]
        check(rep, "C17.err", d, f, BD + "::dispatch", "lookup, end() test, then call", got, [want],
              "the iterator must be compared with end() (and the error raised) before it is dereferenced; arguments in order")
        if "typeid(args)" not in d.text(f):
            rep.violates("C17.args", BD + "::dispatch", "key from the dynamic types", where=d.where(f), detail="the lookup key is not typeid(args)...")
    # ---- fast dispatcher ----
    FD = "basic_fast_dispatcher"
    f = get(FD, "resize_container")
    if f:
        # every resize must be dominated by a condition under which it cannot shrink the table:
        # size() <= index (then the new size index+1 is larger) or the fresh-index branch (index == SIZE_MAX, new size ++m_next_index)
        from ..linear import Lin, lin, nnf, dnf, atom_facts, entails
        cname = ir.params(f)[0]["name"]

        def symmap(t):
            if t[0] == "call" and len(t) == 2 and t[1][0] == "mem" and t[1][2] == "size" and t[1][1] == ("ref", cname):
                return "size"
            if t[0] == "ref":
                return t[1]
            if t[0] == "lit" and str(t[1]) == "18446744073709551615":
                return "SIZE_MAX"
            return None
        resizes = []

        def walk(s, conds):
            k = s.get("kind")
            if k == "IfStmt":
                ks = ir.ekids(s)
                c = ir.sx(ks[0])
                walk(ks[1], conds + [c])
                if len(ks) > 2:
                    walk(ks[2], conds + [("un", "!", c)])
                return
            if k in ("CallExpr", "CXXMemberCallExpr"):
                t = ir.sx(s)
                if t[1][0] == "mem" and t[1][2] == "resize" and t[1][1] == ("ref", cname):
                    resizes.append((s, t, list(conds)))
            for c in ir.kids(s):
                walk(c, conds)
        walk(ir.body(f), [])
        if not resizes:
            rep.broke("no resize call found in resize_container")
        for node, t, conds in resizes:
            arg = t[2]
            facts = []
            fresh = False
            for c in conds:
                for conj in dnf(nnf(c))[:1]:
                    for leaf in conj:
                        if leaf[0] == "atom":
                            l, r = lin(leaf[2], symmap), lin(leaf[3], symmap)
                            if l is not None and r is not None:
                                facts += atom_facts(leaf[1], l, r)
                                if leaf[1] == "==" and {str(l), str(r)} == {str(Lin({"SIZE_MAX": 1})), str(lin(("ref", "idx"), symmap))}:
                                    fresh = True
            la = lin(arg, symmap)
            grows = la is not None and entails(facts, la - Lin({"size": 1}) - Lin({"": 1}), ())
            is_fresh = fresh and arg[0] == "un" and arg[1] == "++" and arg[2] in (("mem", ("this",), "m_next_index"), ("ref", "m_next_index"))
            if grows or is_fresh:
                rep.holds("C17.fast", FD + "::resize_container", "resize `%s`" % ir.show(t), where=d.where(node),
                          detail="cannot shrink: %s" % ("fresh class index" if is_fresh else "guarded by size() <= index"))
            else:
                rep.violates("C17.fast", FD + "::resize_container", "resize `%s`" % ir.show(t), where=d.where(node),
                             detail="this resize is not guarded by size() <= index (nor is it the fresh-index case): registering a class with a "
                                    "smaller index shrinks the table and drops handlers registered earlier")
    f = get(FD, "insert_impl", lambda f: "I + 1 == nb_args" in d.text(f).split("{")[0])
    if f:
        check(rep, "C17.fast", d, f, FD + "::insert_impl(last level)", "store at the last index", canon_fn(d, f),
              [["resize_container(p1, p2)", "(p1[p2[I]] = move(p0))"]], "resize level I then store the handler at index[I]")
    f = get(FD, "insert_impl", lambda f: "I + 1 != nb_args" in d.text(f).split("{")[0])
    if f:
        got = canon_fn(d, f)
        check(rep, "C17.fast", d, f, FD + "::insert_impl(inner level)", "descend one level", got,
              [["resize_container(p1, p2)", "insert_impl(move(p0), p1[p2[I]], p2)"]], "resize level I then recurse into c[index[I]]")
        if "insert_impl<I+1>" not in d.text(f).replace(" ", ""):
            rep.violates("C17.fast", FD + "::insert_impl(inner level)", "descend one level", where=d.where(f), detail="recursion is not on level I+1")
    f = get(FD, "check_size")
    if f:
        check(rep, "C17.err", d, f, FD + "::check_size", "index >= size -> error", canon_fn(d, f),
              [["if (p1[I] >= p0.size())", "  throw((std::runtime_error)\"callback not found\")"],
               ["if (p0.size() <= p1[I])", "  throw((std::runtime_error)\"callback not found\")"],
               ["if !(p1[I] < p0.size())", "  throw((std::runtime_error)\"callback not found\")"]],
              "every index >= size() must raise the error")
    f = get(FD, "dispatch_impl", lambda f: "I + 1 == nb_args" in d.text(f).split("{")[0])
    if f:
        check(rep, "C17.err", d, f, FD + "::dispatch_impl(last level)", "check_size before subscript", canon_fn(d, f),
              [["check_size(p0, p1)", "return p0[p1[I]](pack(p2), pack(p3))"]], "check the index, then call the handler with (args..., udargs...)")
    f = get(FD, "dispatch_impl", lambda f: "I + 1 != nb_args" in d.text(f).split("{")[0])
    if f:
        check(rep, "C17.err", d, f, FD + "::dispatch_impl(inner level)", "check_size before subscript", canon_fn(d, f),
              [["check_size(p0, p1)", "return dispatch_impl(p0[p1[I]], p1, pack(p2), pack(p3))"]], "check the index, then descend")
        txt = d.text(f).replace(" ", "")
        if "check_size<I>" not in txt or "dispatch_impl<I+1>" not in txt:
            rep.violates("C17.err", FD + "::dispatch_impl(inner level)", "level indices", where=d.where(f), detail="check_size<I> / dispatch_impl<I+1> expected")
    f = get(FD, "insert")
    if f:
        check(rep, "C17.args", d, f, FD + "::insert", "indices of the registered types", canon_fn(d, f),
              [["l0 := void{void{pack(ref(D::get_class_static_index()))}}", "insert_impl(move(p0), m_callbacks, l0)"],
               ["l0 := void{void{pack(ref(get_class_static_index()))}}", "insert_impl(move(p0), m_callbacks, l0)"]],
              "index = D::get_class_static_index()... in order")
    f = get(FD, "dispatch")
    if f:
        check(rep, "C17.args", d, f, FD + "::dispatch", "indices of the dynamic types", canon_fn(d, f),
              [["l0 := void{void{pack(p0.get_class_index())}}", "return dispatch_impl(m_callbacks, l0, pack(p0), pack(p1))"]],
              "index = args.get_class_index()... in order")
    # ---- functor dispatcher ----
    FU = "functor_dispatcher"
    f = get(FU, "insert")
    if f:
        lam = [n for n in ir.walk_expr(ir.body(f)) if n.get("kind") == "LambdaExpr"]
        txt = re.sub(r"\s+", "", d.text(lam[0])) if lam else ""
        ok = "returnfun(casting_policy<D&,B&>::cast(args)...,udargs...);" in txt
        (rep.holds if ok else rep.violates)("C17.args", FU + "::insert", "handler wrapper", where=d.where(f),
                                            detail="fun(casting_policy<D&, B&>::cast(args)..., udargs...)" if ok else
                                            "the wrapper must call fun(casting_policy<D&, B&>::cast(args)..., udargs...); found `%s`" % txt[:160])
        got = [l for l in canon_fn(d, f) if not l.startswith("l0 :=")]
        check(rep, "C17.args", d, f, FU + "::insert", "registers under D...", got, [["m_backend.insert(move(l0))"]], "the wrapper must be registered in the backend")
        if "insert<D...>" not in d.text(f).replace(" ", ""):
            rep.violates("C17.args", FU + "::insert", "registers under D...", where=d.where(f), detail="backend insert is not instantiated with D...")
    f = get(FU, "erase")
    if f:
        ok = same(canon_fn(d, f), ["m_backend.erase()"]) and "erase<D...>" in d.text(f).replace(" ", "")
        (rep.holds if ok else rep.violates)("C17.args", FU + "::erase", "erases D...", where=d.where(f), detail=" ; ".join(canon_fn(d, f)))
    f = get(FU, "dispatch")
    if f:
        check(rep, "C17.args", d, f, FU + "::dispatch", "forwards all arguments", canon_fn(d, f), [["return m_backend.dispatch(pack(p0), pack(p1))"]],
              "dispatch(args..., udargs...)")
    # ---- visitors ----
    for const, label in ((False, "base_visitable<R,false>"), (True, "base_visitable<R,true>")):
        f = get("base_visitable", "accept_impl", lambda f, const=const: ptypes(f)[0].startswith("const ") == const)
        if f:
            cv = "true" if const else "false"
            T = "constT" if const else "T"
            want = ["if (l0 := (visitor<T, R, %s> *)&p1)" % cv, "  return l0.visit(p0)", "return catch_all<R,%s>::on_unknown_visitor(p0, p1)" % T]
            got = canon_fn(d, f)
            check(rep, "C17.err", d, f, label + "::accept_impl", "visit on successful cast, else the configured catch_all", got, [want],
                  "an unknown visitor must go to catch_all<R, %s>::on_unknown_visitor (the policy the class was configured with)" % ("const T" if const else "T"))
    f = get("cyclic_visitor", "generic_visit")
    if f:
        got = canon_fn(d, f)
        ok = same(got, ["l0 := *this", "return l0.visit(p0)"]) and "visitor<std::remove_const_t<V>,return_type,is_const>&" in d.text(f).replace(" ", "")
        (rep.holds if ok else rep.violates)("C17.args", "cyclic_visitor::generic_visit", "selects the visitor base of the visited type", where=d.where(f), detail=" ; ".join(got))
    f = get("throwing_catch_all", "on_unknown_visitor")
    if f:
        ok = any(n.get("kind") == "CXXThrowExpr" for n in ir.walk_expr(ir.body(f)))
        (rep.holds if ok else rep.violates)("C17.err", "throwing_catch_all::on_unknown_visitor", "raises", where=d.where(f), detail="throws" if ok else "does not throw")
    rep.unit("%d dispatcher/visitor functions" % sum(len(v) for k, v in fns.items() if k[0] in (SD, BD, FD, FU, "base_visitable", "cyclic_visitor", "throwing_catch_all")))
    return rep
