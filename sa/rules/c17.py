"""C17 — multimethods and visitors call exactly the handler for the dynamic types.

Each dispatcher / visitor function (template pattern) is rendered in a canonical form (parameters p0.., locals l0..)
and compared with the discipline its role requires: error paths, head/tail recursion over the type lists, the
symmetric-swap condition, registration that replaces, argument order.  The run-time state of the fast dispatcher's
lazily assigned class indices across registration histories is not decided.
"""
import re
from .. import clangjson as cj
from .. import ir
from .. import norm
from ..report import Report

DRIVER = '#include "xtl/xmultimethods.hpp"\n#include "xtl/xvisitor.hpp"\n'


def canon_fn(d, fn):
    """statement renderings with parameters renamed p0.., locals l0.."""
    names = {}
    for i, p in enumerate(ir.params(fn)):
        if p.get("name"):
            names[p["name"]] = "p%d" % i
    nloc = [0]
    out = []

    def ren(t):
        if not isinstance(t, tuple):
            return t
        if t[0] == "ref" and t[1] in names:
            return ("ref", names[t[1]])
        if t[0] == "lambda":
            return ("lambda",)
        return (t[0],) + tuple(ren(x) for x in t[1:])

    def decl(v):
        names[v["name"]] = "l%d" % nloc[0]
        nloc[0] += 1

    def stmt(s, depth):
        k = s.get("kind")
        pre = "  " * depth
        if k == "CompoundStmt":
            for c in ir.kids(s):
                stmt(c, depth)
        elif k == "DeclStmt":
            for v in ir.kids(s):
                if v.get("kind") == "VarDecl":
                    init = ir.ekids(v)
                    it = ren(ir.sx(init[-1])) if init else None
                    decl(v)
                    out.append(pre + "%s := %s" % (names[v["name"]], ir.show(it) if it else "-"))
                elif v.get("kind") == "TypeAliasDecl":
                    out.append(pre + "using %s = %s" % (v.get("name"), re.sub(r"\s+", "", (v.get("type") or {}).get("qualType", ""))))
        elif k == "IfStmt":
            raw = [c for c in s.get("inner", []) if isinstance(c, dict)]
            ks = ir.ekids(s)
            if ks and ks[0].get("kind") == "DeclStmt":
                v = [x for x in ir.kids(ks[0]) if x.get("kind") == "VarDecl"][0]
                it = ren(ir.sx(ir.ekids(v)[-1])) if ir.ekids(v) else None
                decl(v)
                out.append(pre + "if (%s := %s)" % (names[v["name"]], ir.show(it)))
                rest = ks[2:]
            else:
                out.append(pre + "if %s" % ir.show(ren(ir.sx(ks[0]))))
                rest = ks[1:]
            stmt(rest[0], depth + 1)
            if len(rest) > 1:
                out.append(pre + "else")
                stmt(rest[1], depth + 1)
        elif k == "ReturnStmt":
            ks = ir.ekids(s)
            out.append(pre + "return %s" % (ir.show(ren(ir.sx(ks[0]))) if ks else ""))
        elif k == "NullStmt":
            pass
        else:
            out.append(pre + ir.show(ren(ir.sx(s))))
    stmt(ir.body(fn), 0)
    return out


def same(a, b):
    norm = lambda s: re.sub(r"\s+", " ", s.strip())
    return [norm(x) for x in a] == [norm(x) for x in b]


def strip_static_assert(lines):
    return [l for l in lines if "StaticAssertDecl" not in l]


def check(rep, rule, d, fn, label, construct, got, alts, why):
    got = strip_static_assert(got)
    if any(same(got, a) for a in alts):
        rep.holds(rule, label, construct, where=d.where(fn), detail=" ; ".join(x.strip() for x in got)[:200])
        return
    want = alts[0]
    if len(got) != len(want):
        rep.inconclusive(rule, label, construct, where=d.where(fn),
                         detail="body has a different structure (%d statements, discipline written for %d): `%s`" % (len(got), len(want), " ; ".join(x.strip() for x in got)[:200]))
        return
    i = next(i for i, (x, y) in enumerate(zip(got, want)) if re.sub(r"\s+", " ", x.strip()) != re.sub(r"\s+", " ", y.strip()))
    rep.violates(rule, label, construct, where=d.where(fn),
                 detail="%s: found `%s`, required `%s`" % (why, got[i].strip(), want[i].strip()))


POLICY_DRIVER = '''#include "xtl/xvisitor.hpp"
#include <stdexcept>
namespace xtl
{
    template <class R, class T>
    struct wx_counting_catch_all
    {
        static R on_unknown_visitor(T&, base_visitor&) { return R(); }
    };
}
namespace wxtl
{
    struct NBase : xtl::base_visitable<int, false, xtl::throwing_catch_all> { };
    struct NLeaf : NBase { XTL_DEFINE_VISITABLE() };
    struct CBase : xtl::base_visitable<int, true, xtl::throwing_catch_all> { };
    struct CLeaf : CBase { XTL_DEFINE_CONST_VISITABLE() };
    struct UBase : xtl::base_visitable<int, false, xtl::wx_counting_catch_all> { };
    struct ULeaf : UBase { XTL_DEFINE_VISITABLE() };
    struct VBase : xtl::base_visitable<int, true, xtl::wx_counting_catch_all> { };
    struct VLeaf : VBase { XTL_DEFINE_CONST_VISITABLE() };
    inline int use_policy(NLeaf& a, const CLeaf& b, ULeaf& c, const VLeaf& e, xtl::base_visitor& v)
    {
        return a.accept(v) + b.accept(v) + c.accept(v) + e.accept(v);
    }
}
'''


def _split_targs(t):
    out, cur, depth = [], "", 0
    for ch in t:
        if ch in "<([":
            depth += 1
        elif ch in ">)]":
            depth -= 1
        if ch == "," and depth == 0:
            out.append(cur)
            cur = ""
        else:
            cur += ch
    if cur:
        out.append(cur)
    return out


def _accept_helper(d, f):
    """accept_impl(visited, vis) { return helper<A...>(visited, vis); }  ->  (helper pattern, {template parameter: argument text}) or None"""
    body = ir.body(f)
    sts = [x for x in ir.ekids(body)] if body else []
    if len(sts) != 1 or sts[0].get("kind") != "ReturnStmt" or not ir.ekids(sts[0]):
        return None
    call = ir.strip(ir.ekids(sts[0])[0])
    if call.get("kind") != "CallExpr":
        return None
    ks = ir.ekids(call)
    names = [p["name"] for p in ir.params(f)]
    if [norm.uncast(ir.sx(a)) for a in ks[1:]] != [("ref", names[0]), ("ref", names[1])]:
        return None
    cal = ir.strip(ks[0])
    nm = cal.get("name") or (cal.get("referencedDecl") or {}).get("name")
    if not nm:
        return None
    txt = re.sub(r"\s+", "", d.text(call))
    m = re.search(r"(?<![A-Za-z0-9_])%s<(.*)>\(%s,%s\)$" % (re.escape(nm), re.escape(names[0]), re.escape(names[1])), txt)
    if not m:
        return None
    targs = _split_targs(m.group(1))
    cands = [x for x in ir.functions(d, nm) if ir.is_template_pattern(d, x) and ir.body(x) is not None and len(ir.params(x)) == 2]
    if len(cands) != 1:
        return None
    tpl = d.parent_of(cands[0])
    tps = [x.get("name") for x in (tpl or {}).get("inner", ()) if x.get("kind") in ("TemplateTypeParmDecl", "NonTypeTemplateParmDecl", "TemplateTemplateParmDecl")]
    if len(tps) < len(targs) or any(t is None for t in tps[:len(targs)]):
        return None
    return cands[0], dict(zip(tps, targs))


def rule_policy(rep):
    """which catch_all policy is reached when the visitor has no handler, decided on instantiations with a non-default policy (the library's throwing one
    and a user one), for the const and the non-const visitable: following the calls clang resolved from accept_impl, every on_unknown_visitor that can be
    reached belongs to the policy the hierarchy was declared with"""
    R_ = "C17.policy"
    rep.rule(R_, "accept_impl of a visitable declared with policy P reaches on_unknown_visitor of P<R, T> and of no other policy (const and non-const visitables, "
                 "library and user policies), through whatever helpers")
    d = cj.dump(POLICY_DRIVER, "xtl::")
    rep.cmd(d.cmd)

    def reach(fn, depth, seen):
        out = []
        if fn is None or ir.body(fn) is None or fn.get("id") in seen or depth > 4:
            return out
        seen.add(fn.get("id"))
        for x in ir.walk_expr(ir.body(fn)):
            if x.get("kind") not in ("CallExpr", "CXXMemberCallExpr") or not ir.ekids(x):
                continue
            c = ir.strip(ir.ekids(x)[0])
            tg = d.by_id.get(c.get("referencedMemberDecl")) if c.get("kind") == "MemberExpr" else d.by_id.get((c.get("referencedDecl") or {}).get("id"))
            if tg is None:
                continue
            if tg.get("name") == "on_unknown_visitor":
                out.append(((ir.enclosing_class(d, tg) or {}).get("name"), x))
            elif "/xtl/" in (d.where(tg) or "") and tg.get("name") != "visit":
                out += reach(tg, depth + 1, seen)
        return out
    n = 0
    for f in ir.functions(d, "accept_impl"):
        cls = ir.enclosing_class(d, f)
        if cls is None or cls.get("name") != "base_visitable" or ir.is_template_pattern(d, f) or ir.body(f) is None:
            continue
        targs = (f.get("type") or {}).get("qualType", "").split("::return_type")[0]
        want = "throwing_catch_all" if "throwing_catch_all" in targs else ("wx_counting_catch_all" if "wx_counting_catch_all" in targs else None)
        if want is None:
            continue
        n += 1
        lab = "%s::accept_impl" % targs.replace("xtl::", "")[:70]
        got = reach(f, 0, set())
        names = sorted({g[0] for g in got if g[0]})
        if not got:
            rep.inconclusive(R_, lab, "policy reached", where=d.where(f), detail="no call of on_unknown_visitor is reached from this instantiation")
        elif names == [want]:
            rep.holds(R_, lab, "policy reached", where=d.where(f), detail="%s::on_unknown_visitor" % want)
        else:
            rep.violates(R_, lab, "policy reached", where=d.where(got[0][1]),
                         detail="a visitor without a handler reaches %s::on_unknown_visitor, the hierarchy was declared with %s: the configured policy is silently replaced" % (
                             ", ".join(x for x in names if x != want) or "?", want))
    if n < 4:
        raise cj.AnalysisBroken("C17.policy: only %d of the 4 accept_impl instantiations found" % n)


def run(tier):
    rep = Report("C17", tier, "other",
                 "Pattern-level discipline rules for static_dispatcher, basic_dispatcher, basic_fast_dispatcher, functor_dispatcher and the "
                 "visitors: error handling before use, head/tail recursion over type lists, symmetric swap condition, replacing "
                 "registration, growing-only resize, argument order.  Registration/erasure histories of the fast dispatcher's lazily "
                 "assigned class indices are run-time state and not decided.",
                 trusted_base=["clang 14 AST of the template patterns", "role table in sa/rules/c17.py"],
                 assumptions=["std::map, std::vector, dynamic_cast and typeid behave as specified"])
    rep.rule("C17.err", "a missing handler is reported before anything is called: lookup result compared with end() before use, "
                        "check_size before each subscript, empty type lists call on_error, a failed visitor cast goes to the configured catch_all policy")
    rep.rule("C17.args", "registration replaces any previous handler for the same key, keys are built from the registered/dynamic types in "
                         "order, handlers receive the dispatched arguments cast position-wise followed by the undispatched ones")
    rep.rule("C17.fast", "fast dispatcher tables only grow (resize is guarded by size <= index or a fresh index), insertion/dispatch descend "
                         "one level per dispatched argument")
    d = cj.dump(DRIVER, "xtl::")
    rep.cmd(d.cmd)
    fns = {}
    for fn in ir.functions(d):
        if not ir.is_template_pattern(d, fn):
            continue
        cls = ir.enclosing_class(d, fn)
        if cls is None:
            continue
        key = (cls.get("name"), fn.get("name"))
        fns.setdefault(key, []).append(fn)

    def get(cls, name, pred=None):
        c = [f for f in fns.get((cls, name), []) if pred is None or pred(f)]
        if not c:
            rep.broke("anchor %s::%s not found" % (cls, name))
            return None
        return c[0]
    ptypes = lambda f: [ir.wtype(p) for p in ir.params(f)]
    SD = "static_dispatcher"
    # ---- static dispatcher: decided on instantiations by abstract execution over the resolved calls (sa/rules/c17_static.py) ----
    from . import c17_static
    c17_static.rule_static(rep)
    # ---- basic dispatcher ----
    BD = "basic_dispatcher"
    f = get(BD, "make_key")
    if f:
        check(rep, "C17.args", d, f, BD + "::make_key", "key from the type pack", canon_fn(d, f),
              [["return void{void{pack((std::type_index)typeid(const std::type_info))}}"]], "key = type_index(typeid(U))...")
        if "typeid(U)" not in d.text(f):
            rep.violates("C17.args", BD + "::make_key", "key from the type pack", where=d.where(f), detail="the key is not built from typeid(U)...")
    from .. import flow, norm
    from .. import fstring as fs
    f = get(BD, "insert")
    if f:
        loc = fs.local_sx(f)
        for v_ in ir.walk_expr(f):
            if v_.get("kind") == "VarDecl" and "&" in ir.qtype(v_) and ir.ekids(v_):
                loc[v_.get("name")] = ir.sx(ir.ekids(v_)[-1])          # a reference local is an alias of the slot it was bound to
        effects = [norm.deep_uncast(fs.subst_locals(ir.sx(s_), loc)) for s_ in ir.kids(ir.body(f)) if s_.get("kind") not in ("DeclStmt", "NullStmt", "StaticAssertDecl")]
        txt = d.text(f).replace(" ", "")
        ok = keeps = False
        for e in effects:
            if e[0] == "bin" and e[1] == "=" and e[2][0] == "index" and e[2][1] in (("mem", ("this",), "m_callback_map"), ("ref", "m_callback_map")) \
                    and e[2][2][0] == "call" and ir.show(e[2][2][1]).endswith("make_key"):
                ok = True
            if e[0] == "call" and e[1][0] == "mem" and e[1][2] == "insert_or_assign" and len(e) >= 3 and e[2][0] == "call" and ir.show(e[2][1]).endswith("make_key"):
                ok = True
            if e[0] == "call" and e[1][0] == "mem" and e[1][2] in ("emplace", "insert", "try_emplace") and e[1][1] in (("mem", ("this",), "m_callback_map"), ("ref", "m_callback_map")):
                keeps = True
        if keeps:
            rep.violates("C17.args", BD + "::insert", "registration replaces", where=d.where(f),
                         detail="emplace/insert keeps an already registered handler for the same type tuple: re-registration must replace it")
        elif ok and "make_key<D...>" in txt:
            rep.holds("C17.args", BD + "::insert", "registration replaces", where=d.where(f), detail="m_callback_map[make_key<D...>()] = cb")
        else:
            rep.violates("C17.args", BD + "::insert", "registration replaces", where=d.where(f),
                         detail="no assignment of the handler under the key of D...: found `%s`" % "; ".join(ir.show(e)[:70] for e in effects))
    f = get(BD, "erase")
    if f:
        body_txt = " ; ".join(canon_fn(d, f))
        loc = fs.local_sx(f)
        if ("lower_bound" in body_txt or "upper_bound" in body_txt) and "erase(" in body_txt and not re.search(r"first\s*==|==\s*[^;]*first|key_comp|!\s*\(.*<.*first", body_txt):
            rep.violates("C17.args", BD + "::erase", "erases the key of D...", where=d.where(f),
                         detail="the entry found by lower_bound/upper_bound is erased without testing that its key equals the key of D...: erasing an unregistered tuple "
                                "removes the NEXT registered handler (`%s`)" % body_txt[:160])
        else:
            # erase(make_key<D...>()) directly, or erase(it) of an iterator obtained by find(make_key<D...>()) (its end() test is C17.err's business)
            ok = False
            for n_ in ir.walk_expr(ir.body(f)):
                if n_.get("kind") in ("CallExpr", "CXXMemberCallExpr"):
                    t = norm.deep_uncast(fs.subst_locals(ir.sx(n_), loc))
                    if t[0] == "call" and t[1][0] == "mem" and t[1][2] == "erase" and len(t) == 3:
                        a_ = t[2]
                        if a_[0] == "call" and ir.show(a_[1]).endswith("make_key"):
                            ok = True
                        if a_[0] == "call" and a_[1][0] == "mem" and a_[1][2] == "find" and len(a_) == 3 and a_[2][0] == "call" and ir.show(a_[2][1]).endswith("make_key"):
                            ok = True
            ok = ok and "make_key<D...>" in d.text(f).replace(" ", "")
            (rep.holds if ok else rep.violates)("C17.args", BD + "::erase", "erases the key of D...", where=d.where(f),
                                                detail="erases make_key<D...>()" if ok else "must erase exactly the key of D...; found `%s`" % body_txt[:160])
    # every iterator obtained from m_callback_map.find() is used only where it was compared with end() - in whichever member the lookup lives
    n_find = 0
    for (cn, fname), fl in sorted(fns.items()):
        if cn != BD:
            continue
        for fn_ in fl:
            its = {}
            for v in ir.walk_expr(fn_):
                if v.get("kind") == "VarDecl" and ir.ekids(v):
                    t = norm.deep_uncast(ir.sx(ir.ekids(v)[-1]))
                    if t[0] == "call" and t[1][0] == "mem" and t[1][2] == "find" and t[1][1] in (("mem", ("this",), "m_callback_map"), ("ref", "m_callback_map")):
                        its[v.get("name")] = v
            if not its:
                continue
            n_find += 1
            bad = None
            nuse = 0
            for path in flow.function_paths(fn_, with_ctor_inits=False):
                valid = {k_: None for k_ in its}
                for st in path:
                    if st[0] == "cond":
                        c = norm.norm_cmp(ir.sx(st[1]), lambda x: x[0] == "ref" and x[1] in its)
                        if c is not None and c[0] in ("==", "!=") and c[2][0] == "call" and c[2][1][0] == "mem" and c[2][1][2] in ("end", "cend"):
                            valid[c[1][1]] = (c[0] == "!=") == st[2]
                    node = st[1] if st[0] in ("ev", "return", "decl") and len(st) > 1 and isinstance(st[1], dict) else None
                    if node is None:
                        continue
                    for x in [node] + list(ir.walk_expr(node)):
                        if x.get("kind") in ("MemberExpr", "CXXDependentScopeMemberExpr") and (x.get("name") or x.get("member")) in ("second", "first") or \
                                (x.get("kind") in ("UnaryOperator",) and x.get("opcode") == "*"):
                            for y in ir.walk_expr(x):
                                if y.get("kind") == "DeclRefExpr" and (y.get("referencedDecl") or {}).get("name") in its:
                                    nuse += 1
                                    if valid[(y.get("referencedDecl") or {}).get("name")] is not True and bad is None:
                                        bad = (x, "the result of m_callback_map.find() is dereferenced on a path that did not compare it with end(): an unregistered type tuple dereferences end()")
            label = BD + "::" + fname
            if bad:
                rep.violates("C17.err", label, "lookup, end() test, then use", where=d.where(bad[0]), detail=bad[1])
            else:
                rep.holds("C17.err", label, "lookup, end() test, then use", where=d.where(fn_), detail="%d use(s) of the iterator, all after the end() test" % nuse, nontrivial=nuse > 0)
    if n_find == 0:
        rep.broke("basic_dispatcher: no m_callback_map.find() lookup found")
    # the lookup key is built from the dynamic types of the arguments, the handler gets (args..., udargs...)
    f = get(BD, "dispatch")
    if f:
        cls_txt = " ".join(d.text(x).replace(" ", "") for (cn, _), fl in fns.items() if cn == BD for x in fl)
        ok = "typeid(args)" in cls_txt
        (rep.holds if ok else rep.violates)("C17.args", BD + "::dispatch", "key from the dynamic types", where=d.where(f), detail="typeid(args)..." if ok else "the lookup key is not typeid(args)...")
        calls = [norm.deep_uncast(ir.sx(x)) for x in ir.walk_expr(ir.body(f)) if x.get("kind") in ("CallExpr", "CXXOperatorCallExpr", "CXXMemberCallExpr")]
        pn = [p["name"] for p in ir.params(f)]
        ok = any(t[0] == "call" and tuple(t[2:]) == tuple(("pack", ("ref", p_)) for p_ in pn) or (t[0] == "call" and [ir.show(x) for x in t[2:]] == ["pack(%s)" % p_ for p_ in pn]) for t in calls)
        (rep.holds if ok else rep.violates)("C17.args", BD + "::dispatch", "handler receives (args..., udargs...)", where=d.where(f),
                                            detail="(args..., udargs...)" if ok else "no call passes (args..., udargs...) in order: %s" % [ir.show(t)[:60] for t in calls][:4])
    # ---- fast dispatcher ----
    FD = "basic_fast_dispatcher"
    # the member that makes room in one level of the table: found by what it does (it calls resize() on its container parameter), not by its name
    f = None
    for (cn_, fname_), fl_ in sorted(fns.items()):
        if cn_ != FD:
            continue
        for cand in fl_:
            ps_ = ir.params(cand)
            if len(ps_) >= 2 and any(x.get("kind") in ("CallExpr", "CXXMemberCallExpr") and ir.sx(x)[0] == "call" and ir.sx(x)[1][0] == "mem" and ir.sx(x)[1][2] == "resize"
                                      and ir.sx(x)[1][1] == ("ref", ps_[0]["name"]) for x in ir.walk_expr(ir.body(cand))):
                f = cand
    if f is None:
        rep.broke("anchor %s: no member that resizes a level of the table was found" % FD)
    if f:
        # path-wise, with the size of the level, the class index and m_next_index as linear forms over their values on entry:
        # every resize must grow the level (or be the fresh-index case), and at every exit index[I] < c.size() must hold
        from .. import flow, norm
        from ..linear import Lin, atom_facts, entails
        cname = ir.params(f)[0]["name"]
        iname = ir.params(f)[1]["name"]
        aliases = set()
        for v in ir.walk_expr(f):
            if v.get("kind") == "VarDecl" and ir.ekids(v):
                t = norm.deep_uncast(ir.sx(ir.ekids(v)[-1]))
                while t[0] == "call" and len(t) == 2 and t[1][0] == "mem" and t[1][2] == "get":
                    t = t[1][1]
                if t[0] == "index" and t[1] == ("ref", iname):
                    aliases.add(v.get("name"))
        nres = 0
        bad = None
        npaths = 0
        for path in flow.function_paths(f, with_ctor_inits=False):
            val = {"idx": Lin({"idx": 1}), "size": Lin({"size": 1}), "next": Lin({"next": 1})}
            facts = []
            fresh = False
            done_inc = set()

            def lv(t):
                t = norm.uncast(t)
                if t[0] == "lit":
                    v_ = norm.int_of(t)
                    if v_ is None:
                        return None
                    if v_ >= 2 ** 63:
                        return Lin({"SIZE_MAX": 1})
                    return Lin({"": v_}) if v_ else Lin()
                if t[0] == "ref" and t[1] in aliases:
                    return val["idx"]
                if t[0] == "ref" and t[1] == "SIZE_MAX":
                    return Lin({"SIZE_MAX": 1})
                if t[0] == "index" and norm.uncast(t[1]) == ("ref", iname):
                    return val["idx"]
                if t[0] == "call" and len(t) == 2 and t[1][0] == "mem" and t[1][2] == "get":
                    return lv(t[1][1])
                if t[0] == "call" and len(t) == 2 and t[1][0] == "mem" and t[1][2] == "size" and norm.uncast(t[1][1]) == ("ref", cname):
                    return val["size"]
                if t in (("mem", ("this",), "m_next_index"), ("ref", "m_next_index")):
                    return val["next"]
                if t[0] == "un" and t[1] in ("++", "post++") and norm.uncast(t[2]) in (("mem", ("this",), "m_next_index"), ("ref", "m_next_index")):
                    return val["next"] + Lin({"": 1})
                if t[0] == "bin" and t[1] in ("+", "-"):
                    a_, b_ = lv(t[2]), lv(t[3])
                    if a_ is None or b_ is None:
                        return None
                    return a_ + b_ if t[1] == "+" else a_ - b_
                return None
            for st in path:
                if st[0] == "cond":
                    c = norm.norm_cmp(ir.sx(st[1]), lambda x: lv(x) is not None)
                    if c is None:
                        continue
                    op, a_, b_ = c
                    if not st[2]:
                        op = norm.NEGOP[op]
                    la, lb = lv(a_), lv(b_)
                    if la is None or lb is None:
                        continue
                    if op == "==" and {str(la), str(lb)} == {str(val["idx"]), str(Lin({"SIZE_MAX": 1}))}:
                        fresh = True
                        continue
                    if "SIZE_MAX" in la or "SIZE_MAX" in lb:
                        continue
                    facts += atom_facts(op, la, lb)
                elif st[0] == "ev":
                    n = st[1]
                    t = ir.sx(n)
                    if n.get("kind") in ("CallExpr", "CXXMemberCallExpr") and t[0] == "call" and t[1][0] == "mem" and t[1][2] == "resize" and norm.uncast(t[1][1]) == ("ref", cname):
                        nres += 1
                        arg = norm.uncast(t[2])
                        if arg[0] == "un" and arg[1] in ("++", "post++") and any(id(x) in done_inc for x in ir.walk_expr(n)):
                            new = val["next"]        # the increment inside the argument was already executed as its own event
                        else:
                            new = lv(arg)
                            if arg[0] == "un" and arg[1] in ("++", "post++"):
                                val["next"] = val["next"] + Lin({"": 1})
                        grows = new is not None and entails(facts, new - val["size"] - Lin({"": 1}), ())
                        is_fresh = fresh and new is not None and new == val["next"] and val["next"] == Lin({"next": 1, "": 1})
                        if not (grows or is_fresh) and bad is None:
                            bad = (n, "this resize is not guarded by size() <= index (nor is it the fresh-index case): registering a class with a "
                                      "smaller index shrinks the table and drops handlers registered earlier")
                        if new is not None:
                            val["size"] = new
                    elif n.get("kind") == "UnaryOperator" and n.get("opcode") == "++" and norm.uncast(t[2]) in (("mem", ("this",), "m_next_index"), ("ref", "m_next_index")):
                        val["next"] = val["next"] + Lin({"": 1})
                        done_inc.add(id(n))
                    elif n.get("kind") == "CompoundAssignOperator" and n.get("opcode") in ("+=", "-=") and norm.uncast(t[2]) in (("mem", ("this",), "m_next_index"), ("ref", "m_next_index")):
                        dv = lv(t[3])
                        if dv is not None:
                            val["next"] = val["next"] + dv if n.get("opcode") == "+=" else val["next"] - dv
                    elif n.get("kind") == "BinaryOperator" and n.get("opcode") == "=":
                        lhs = norm.uncast(t[2])
                        if (lhs[0] == "ref" and lhs[1] in aliases) or (lhs[0] == "index" and norm.uncast(lhs[1]) == ("ref", iname)) or \
                                (lhs[0] == "call" and len(lhs) == 2 and lhs[1][0] == "mem" and lhs[1][2] == "get"):
                            nv = lv(t[3])
                            if nv is not None:
                                val["idx"] = nv
                                fresh = False
            npaths += 1
            if path[-1][0] in ("return", "end") and bad is None:
                if fresh or not entails(facts, val["size"] - val["idx"] - Lin({"": 1}), ()):
                    bad = (f, "a path leaves resize_container without index[I] < c.size(): the subscript that follows reads/writes past the level")
        if nres == 0:
            rep.broke("no resize call found in resize_container")
        elif bad:
            rep.violates("C17.fast", FD + "::" + f["name"], "levels only grow; index[I] < size() at exit", where=d.where(bad[0]), detail=bad[1])
        else:
            rep.holds("C17.fast", FD + "::" + f["name"], "levels only grow; index[I] < size() at exit", where=d.where(f), detail="%d path(s), %d resize event(s)" % (npaths, nres))
    # the nested tables are std::vector with four members let through: resize_container derives a fresh class index from size() right after resize(n),
    # so resize must give exactly n elements (a growth policy in the wrapper hands the same slot to two classes)
    rc_methods = [f for (c_, n_), fl in fns.items() if c_ == "recursive_container_impl" for f in fl if n_ in ("resize", "size", "operator[]")]
    bad_rc = inc_rc = None
    for f in rc_methods:
        ps = [p_.get("name") for p_ in ir.params(f)]
        sts = [x for x in ir.kids(ir.body(f)) if x.get("kind") not in ("NullStmt",)]
        e = None
        if len(sts) == 1:
            e = sts[0]
            if e.get("kind") == "ReturnStmt" and ir.ekids(e):
                e = ir.ekids(e)[0]
            e = ir.strip(e)
        t = norm.deep_uncast(ir.sx(e)) if e is not None else None
        fwd = t is not None and t[0] == "call" and ir.show(t[1]).split("::")[-1].split(".")[-1].split("->")[-1].strip(")") .endswith(f.get("name").replace("operator", "operator")) and \
            [norm.uncast(a) for a in t[2:]] == [("ref", p_) for p_ in ps]
        if fwd:
            continue
        if f.get("name") == "resize" and t is not None and t[0] == "call" and "resize" in ir.show(t[1]) and len(t) >= 3 and norm.uncast(t[2]) != ("ref", ps[0] if ps else "?"):
            bad_rc = (f, "resize(%s) gives the table `%s` elements: resize_container takes size() - 1 as the index of a class it sees for the first time, so a table that grows by more "
                         "than was asked hands out an index that m_next_index will hand out again" % (ps[0] if ps else "", ir.show(t[2])[:60]))
        else:
            inc_rc = (f, "own %s does not simply forward to std::vector's" % f.get("name"))
    if bad_rc:
        rep.violates("C17.fast", "recursive_container_impl::resize", "the tables are plain vectors: resize(n) gives n elements", where=d.where(bad_rc[0]), detail=bad_rc[1])
    elif inc_rc:
        rep.inconclusive("C17.fast", "recursive_container_impl::" + inc_rc[0].get("name"), "the tables are plain vectors: resize(n) gives n elements", where=d.where(inc_rc[0]), detail=inc_rc[1])
    else:
        rep.holds("C17.fast", "recursive_container_impl", "the tables are plain vectors: resize(n) gives n elements", detail="size/resize/operator[] are std::vector's (%s)" % (
            "using-declarations" if not rc_methods else "%d forwarding member(s)" % len(rc_methods)))
    from . import c17_fast
    c17_fast.rule_fast_inst(rep)
    # ---- functor dispatcher ----
    FU = "functor_dispatcher"
    f = get(FU, "insert")
    if f:
        lam = [n for n in ir.walk_expr(ir.body(f)) if n.get("kind") == "LambdaExpr"]
        txt = re.sub(r"\s+", "", d.text(lam[0])) if lam else ""
        if not lam:
            # the wrapper may be a named functor class of the dispatcher: its call operator is the wrapper then
            ops_ = [x for x in ir.functions(d, "operator()") if ir.is_template_pattern(d, x) and "xmultimethods" in (d.where(x) or "") and "casting_policy" in d.text(x)]
            if ops_:
                t_ = re.sub(r"\s+", "", d.text(ops_[0]))
                m2 = re.search(r"operator\(\)\(([^)]*)\)", t_)
                txt = "](" + (m2.group(1) if m2 else "") + ")" + re.sub(r"return\w+\(casting_policy", "returnfun(casting_policy", t_[t_.index("{"):] if "{" in t_ else "")
        m_ = re.search(r"\]\(B&\.\.\.(\w+),T&\.\.\.(\w+)\)", txt)
        a_, u_ = (m_.group(1), m_.group(2)) if m_ else ("args", "udargs")
        ok = ("returnfun(casting_policy<D&,B&>::cast(%s)...,%s...);" % (a_, u_)) in txt
        if ok and m_ is None:
            ok = False
            txt = "the wrapper's parameters are `%s`, expected (B&... args, T&... udargs): the dispatched and the undispatched arguments must reach the handler by reference" % (
                re.search(r"\]\(([^)]*)\)", txt).group(1) if re.search(r"\]\(([^)]*)\)", txt) else "?")
        if not txt:
            rep.inconclusive("C17.args", FU + "::insert", "handler wrapper", where=d.where(f), detail="neither a lambda nor a functor class with a casting call operator was found")
        else:
          (rep.holds if ok else rep.violates)("C17.args", FU + "::insert", "handler wrapper", where=d.where(f),
                                            detail="fun(casting_policy<D&, B&>::cast(args)..., udargs...)" if ok else
                                            "the wrapper must call fun(casting_policy<D&, B&>::cast(args)..., udargs...); found `%s`" % txt[:160])
        got = [l for l in canon_fn(d, f) if not l.startswith("l0 :=")]
        reg_ok = any(l.strip().startswith("m_backend.insert(") for l in got)
        (rep.holds if reg_ok else rep.violates)("C17.args", FU + "::insert", "registers under D...", where=d.where(f),
                                                detail="m_backend.insert<D...>(wrapper)" if reg_ok else "the wrapper must be registered in the backend: found `%s`" % " ; ".join(got)[:160])
        if "insert<D...>" not in d.text(f).replace(" ", ""):
            rep.violates("C17.args", FU + "::insert", "registers under D...", where=d.where(f), detail="backend insert is not instantiated with D...")
    f = get(FU, "erase")
    if f:
        ok = same(canon_fn(d, f), ["m_backend.erase()"]) and "erase<D...>" in d.text(f).replace(" ", "")
        (rep.holds if ok else rep.violates)("C17.args", FU + "::erase", "erases D...", where=d.where(f), detail=" ; ".join(canon_fn(d, f)))
    f = get(FU, "dispatch")
    if f:
        check(rep, "C17.args", d, f, FU + "::dispatch", "forwards all arguments", canon_fn(d, f), [["return m_backend.dispatch(pack(p0), pack(p1))"]],
              "dispatch(args..., udargs...)")
    # ---- casting policies: the handler must receive the object that was dispatched, so the conversion from the base reference is the language's own
    #      derived-class conversion (static_cast / dynamic_cast adjust the address for a base that is not at offset 0; a reinterpreting cast does not) ----
    for cname, kinds_ok in (("static_caster", ("CXXStaticCastExpr", "CXXDynamicCastExpr")), ("dynamic_caster", ("CXXDynamicCastExpr",))):
        f = get(cname, "cast")
        if not f:
            continue
        par = ir.params(f)[0].get("name")
        rets = [x for x in ir.walk_expr(ir.body(f)) if x.get("kind") == "ReturnStmt" and ir.ekids(x)]
        bad = inc = None
        for r_ in rets:
            e = ir.strip(ir.ekids(r_)[0])
            k_ = e.get("kind")
            if k_ in ("CXXReinterpretCastExpr", "CXXConstCastExpr") or any(x.get("kind") == "CXXReinterpretCastExpr" for x in ir.walk_expr(e)):
                bad = (r_, "returns `%s`: a reinterpreting cast does not adjust the address when the dispatched base is not the first base of the handler's type, "
                           "the handler then receives a reference that is not the object passed to dispatch()" % d.text(e)[:60])
                break
            if k_ in kinds_ok or (k_ == "CXXStaticCastExpr" and cname == "dynamic_caster"):
                src = norm.uncast(ir.sx(ir.ekids(e)[0])) if ir.ekids(e) else None
                to = re.sub(r"\s+", "", ir.wtype(e) or ir.qtype(e))
                if src != ("ref", par) or to not in ("T&", "T"):
                    bad = (r_, "returns `%s`, expected the cast of the parameter `%s` to T&" % (d.text(e)[:60], par))
                    break
                if k_ not in kinds_ok:
                    inc = (r_, "dynamic_caster converts with static_cast: whether that is checked elsewhere is not decided")
            else:
                inc = (r_, "return expression `%s` is not a named cast of the parameter" % d.text(e)[:60])
        if not rets:
            inc = (f, "no return statement")
        if bad:
            rep.violates("C17.args", cname + "::cast", "the handler's argument is the dispatched object", where=d.where(bad[0]), detail=bad[1])
        elif inc:
            rep.inconclusive("C17.args", cname + "::cast", "the handler's argument is the dispatched object", where=d.where(inc[0]), detail=inc[1])
        else:
            rep.holds("C17.args", cname + "::cast", "the handler's argument is the dispatched object", where=d.where(f), detail="%d return(s), each %s<T&>(%s)" % (
                len(rets), "static_cast" if cname == "static_caster" else "dynamic_cast", par))
    # ---- visitors ----
    for const, label in ((False, "base_visitable<R,false>"), (True, "base_visitable<R,true>")):
        f = get("base_visitable", "accept_impl", lambda f, const=const: ptypes(f)[0].startswith("const ") == const)
        if f:
            # path-wise: the visitor is cast to visitor<T, R, const>; where the cast succeeded the result is p->visit(visited), where it failed the
            # configured policy catch_all<R, [const] T>::on_unknown_visitor(visited, vis) decides
            cv = "true" if const else "false"
            pv, pvis = [p["name"] for p in ir.params(f)]
            f0 = f
            tsub = {}
            hf = _accept_helper(d, f)
            if hf is not None:
                # the body is one call of a helper template with the two parameters: the helper is analysed instead, its template parameters
                # replaced by the arguments the call names
                f, tsub = hf
                pv, pvis = [p["name"] for p in ir.params(f)]

            def tapply(t_):
                if not tsub:
                    return t_
                return re.sub(r"(?<![A-Za-z0-9_:])(%s)(?![A-Za-z0-9_])" % "|".join(re.escape(k_) for k_ in tsub), lambda m_: tsub[m_.group(1)], t_)
            casts = {}
            aliases = {x.get("name"): re.sub(r"\s+", "", (x.get("type") or {}).get("qualType", "")) for x in ir.walk_expr(f) if x.get("kind") == "TypeAliasDecl"}
            for v in ir.walk_expr(f):
                if v.get("kind") == "VarDecl" and ir.ekids(v):
                    dc = [x for x in [ir.strip(ir.ekids(v)[-1])] + list(ir.walk_expr(ir.ekids(v)[-1])) if x.get("kind") == "CXXDynamicCastExpr"]
                    if dc:
                        to = re.sub(r"\s+", "", ir.qtype(dc[0]))
                        for k_, v_ in aliases.items():
                            to = to.replace(k_, v_)
                        to = tapply(to)
                        casts[v.get("name")] = (to, ir.sx(ir.ekids(dc[0])[0]))
            bad = None
            n_ok = n_fail = 0
            want_to = "visitor<T,R,%s>*" % cv
            if not casts:
                rep.inconclusive("C17.err", label + "::accept_impl", "visit on successful cast, else the configured catch_all", where=d.where(f),
                                 detail="no dynamic_cast in the body (delegated to a helper): not followed")
                continue
            if len(casts) != 1:
                bad = "expected one dynamic_cast of the visitor, found %d" % len(casts)
            else:
                pname, (to, src) = list(casts.items())[0]
                if to != want_to or norm.uncast(src) != ("un", "&", ("ref", pvis)):
                    bad = "the visitor is cast to `%s` from `%s`, expected dynamic_cast<%s>(&%s)" % (to, ir.show(src), want_to, pvis)
                for path in ([] if bad else flow.function_paths(f, with_ctor_inits=False)):
                    okp = None
                    for st in path:
                        if st[0] == "cond":
                            t = norm.uncast(ir.sx(st[1]))
                            if t == ("ref", pname):
                                okp = st[2]
                            else:
                                c = norm.norm_cmp(t, lambda x: x == ("ref", pname))
                                if c is not None and c[0] in ("==", "!=") and norm.uncast(c[2]) in (("lit", "nullptr"), ("lit", "0")):
                                    okp = (c[0] == "!=") == st[2]
                        if st[0] == "decl" and st[1].get("name") == pname and (d.parent_of(d.parent_of(st[1])) or {}).get("kind") == "IfStmt":
                            pass
                    end = path[-1]
                    if end[0] != "return" or not ir.ekids(end[1]):
                        bad = "a path does not return"
                        break
                    rn = ir.ekids(end[1])[0]
                    # the arm of a ?: that this path evaluates
                    def chosen(n_):
                        n_ = ir.strip(n_)
                        if n_.get("kind") == "ConditionalOperator" and okp is not None:
                            kk = ir.ekids(n_)
                            tc = norm.uncast(ir.sx(kk[0]))
                            pos = None
                            if tc == ("ref", pname):
                                pos = True
                            else:
                                c2 = norm.norm_cmp(tc, lambda x: x == ("ref", pname))
                                if c2 is not None and c2[0] in ("==", "!="):
                                    pos = c2[0] == "!="
                            if pos is not None:
                                return chosen(kk[1] if pos == okp else kk[2])
                        return n_
                    rt = norm.deep_uncast(ir.sx(chosen(rn)))
                    visit = rt[0] == "call" and rt[1] == ("mem", ("ref", pname), "visit") and tuple(rt[2:]) == (("ref", pv),)
                    T_ = "constT" if const else "T"
                    unknown = rt[0] == "call" and "on_unknown_visitor" in ir.show(rt[1]) and tuple(rt[2:]) == (("ref", pv), ("ref", pvis)) and \
                        re.search(r"(?<![A-Za-z0-9_])catch_all<R,%s>::on_unknown_visitor" % T_, re.sub(r"\s+", "", tapply(d.text(chosen(rn))))) is not None
                    if okp is True and visit:
                        n_ok += 1
                    elif okp is False and unknown:
                        n_fail += 1
                    elif okp is None:
                        bad = "a path returns `%s` without having tested the result of the cast" % ir.show(rt)[:60]
                    elif okp is True:
                        bad = "after a successful cast the result is `%s`, expected %s->visit(%s)" % (ir.show(rt)[:60], pname, pv)
                    else:
                        bad = "an unknown visitor yields `%s`, expected catch_all<R, %s>::on_unknown_visitor(%s, %s) (the policy the class was configured with)" % (
                            ir.show(rt)[:70], "const T" if const else "T", pv, pvis)
                    if bad:
                        break
                if not bad and (n_ok == 0 or n_fail == 0):
                    bad = "expected a visiting and a catch_all path (%d, %d)" % (n_ok, n_fail)
            (rep.violates if bad else rep.holds)("C17.err", label + "::accept_impl", "visit on successful cast, else the configured catch_all", where=d.where(f),
                                                detail=bad or "%d visiting, %d catch_all path(s)%s" % (n_ok, n_fail, " in the helper %s the body delegates to" % f.get("name") if f is not f0 else ""))
    f = get("cyclic_visitor", "generic_visit")
    if f:
        txt = d.text(f).replace(" ", "").replace("\n", "")
        loc = fs.local_sx(f)
        rets = [x for x in ir.walk_expr(ir.body(f)) if x.get("kind") == "ReturnStmt" and ir.ekids(x)]
        rt = norm.deep_uncast(fs.subst_locals(ir.sx(ir.ekids(rets[0])[0]), loc)) if len(rets) == 1 else None
        pv = ir.params(f)[0]["name"]
        ok = rt is not None and rt[0] == "call" and rt[1][0] == "mem" and rt[1][2] == "visit" and tuple(rt[2:]) == (("ref", pv),) and norm.deep_uncast(rt[1][1]) in (("un", "*", ("this",)), ("this",)) \
            and "visitor<std::remove_const_t<V>,return_type,is_const>" in txt
        (rep.holds if ok else rep.violates)("C17.args", "cyclic_visitor::generic_visit", "selects the visitor base of the visited type", where=d.where(f),
                                            detail=ir.show(rt)[:100] if rt else "?")
    f = get("throwing_catch_all", "on_unknown_visitor")
    if f:
        ok = any(n.get("kind") == "CXXThrowExpr" for n in ir.walk_expr(ir.body(f)))
        (rep.holds if ok else rep.violates)("C17.err", "throwing_catch_all::on_unknown_visitor", "raises", where=d.where(f), detail="throws" if ok else "does not throw")
    rep.unit("%d dispatcher/visitor functions" % sum(len(v) for k, v in fns.items() if k[0] in (SD, BD, FD, FU, "base_visitable", "cyclic_visitor", "throwing_catch_all")))
    rule_policy(rep)
    return rep
