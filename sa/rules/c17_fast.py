"""C17 — basic_fast_dispatcher decided on an INSTANTIATION (two dispatched arguments): insert<D0, D1>(cb) and dispatch(a0, a1) are executed
abstractly over the nested table, following every call through the callee clang resolved (tag dispatch, helper members, early returns are
seen through).  Abstract values: a table/slot is its path of class indices below m_callbacks; index[k] is the symbol idx_k; what is known
about sizes are facts idx_k < size(path) obtained from the bounds tests passed (dispatch) or from resize_container (insert, whose own
postcondition idx < size on every path is decided separately with the linear layer)."""
from .. import clangjson as cj
from .. import ir
from .. import trange

DRIVER = r'''
#include "xtl/xmultimethods.hpp"
#include <functional>
namespace wxtl {
struct Base { virtual ~Base(); XTL_IMPLEMENT_INDEXABLE_CLASS() };
struct A : Base { XTL_IMPLEMENT_INDEXABLE_CLASS() }; struct B : Base { XTL_IMPLEMENT_INDEXABLE_CLASS() };
struct C : Base { XTL_IMPLEMENT_INDEXABLE_CLASS() };
using FD = xtl::basic_fast_dispatcher<xtl::mpl::vector<Base, Base, Base>, int, xtl::mpl::vector<double>, std::function<int(Base&, Base&, Base&, double&)>>;
int use(FD& d, Base& x, Base& y, Base& z, double& u) { d.insert<A, B, C>(std::function<int(Base&, Base&, Base&, double&)>()); return d.dispatch(x, y, z, u); }
}
'''


class Stuck(Exception):
    pass


class State:
    def __init__(self):
        self.facts = set()       # ("lt", k, path)
        self.events = []         # ("sub", path, k, guarded) / ("store", path, what) / ("call", path, args)

    def copy(self):
        s = State()
        s.facts = set(self.facts)
        s.events = list(self.events)
        return s


class FastSim:
    def __init__(self, d):
        self.d = d
        self.depth = 0

    # -- statements: generators of (outcome, value, state) ------------------------------------------------------------------------
    def call_fn(self, fn, args, st, this=None):
        if self.depth > 30:
            raise Stuck("recursion depth")
        env = {"this": this}
        for p, a in zip(ir.params(fn), args):
            env[p.get("id")] = a
        nm = fn.get("name")
        if self.is_level_resizer(fn):
            # summarised: afterwards index[I] < size of that level (its body is checked against that postcondition by C17.fast)
            k = self.const_targ(fn)
            c = args[0]
            if c[0] != "tbl" or k is None:
                raise Stuck("resize_container on %s" % (c,))
            st.facts.add(("lt", k, c[1]))
            st.events.append(("resize", c[1], k))
            # a resizer that returns something returns the slot it made room for
            yield ("ret", ("idx", k) if "void" not in ir.qtype(fn).split("(")[0] else None, st)
            return
        self.depth += 1
        try:
            for out in self.block(ir.kids(ir.body(fn)), env, st):
                if out[0] == "end":
                    yield ("ret", None, out[2])
                else:
                    yield out
        finally:
            self.depth -= 1

    def is_level_resizer(self, fn):
        """the member that makes room in one level: it calls resize() on its container parameter (whatever it is named)"""
        ps = ir.params(fn)
        if not ps or ir.body(fn) is None or self.const_targ(fn) is None:
            return False
        c0 = ps[0].get("name")
        for x in ir.walk_expr(ir.body(fn)):
            if x.get("kind") == "CXXMemberCallExpr":
                m = ir.strip(ir.ekids(x)[0])
                if m.get("kind") == "MemberExpr" and m.get("name") == "resize" and ir.ekids(m):
                    b = ir.strip(ir.ekids(m)[0])
                    if b.get("kind") == "DeclRefExpr" and (b.get("referencedDecl") or {}).get("name") == c0:
                        return True
        return False

    def const_targ(self, fn):
        for a in ir.template_args(fn):
            try:
                return int(a)
            except (TypeError, ValueError):
                continue
        return None

    def block(self, stmts, env, st):
        if not stmts:
            yield ("end", None, st)
            return
        head, rest = stmts[0], stmts[1:]
        for out in self.stmt(head, env, st):
            if out[0] != "end":
                yield out
                continue
            yield from self.block(rest, env, out[2])

    def stmt(self, s, env, st):
        k = s.get("kind")
        if k == "CompoundStmt":
            yield from self.block(ir.kids(s), dict(env) if False else env, st)
            return
        if k == "DeclStmt":
            for v in ir.kids(s):
                if v.get("kind") == "VarDecl" and ir.ekids(v):
                    q = ((v.get("type") or {}).get("desugaredQualType") or "") + " " + ir.qtype(v)
                    if "array<" in q and ("unsigned long" in q or "reference_wrapper" in q or "index_" in q):
                        env[v.get("id")] = ("indexarr",)       # the array of class indices, one per dispatched argument
                        elems = []
                        for x in ir.walk_expr(v):
                            if x.get("kind") in ("CallExpr", "CXXMemberCallExpr"):
                                c_ = ir.strip(ir.ekids(x)[0])
                                nm_ = c_.get("name") if c_.get("kind") == "MemberExpr" else (c_.get("referencedDecl") or {}).get("name")
                                if nm_ == "get_class_index" and c_.get("kind") == "MemberExpr":
                                    elems.append(("classidx", self.ev(ir.ekids(c_)[0], env, st)))
                                elif nm_ == "get_class_static_index":
                                    tgt_ = self.d.by_id.get((c_.get("referencedDecl") or {}).get("id")) or self.d.by_id.get(c_.get("referencedMemberDecl"))
                                    owner = ir.enclosing_class(self.d, tgt_) if tgt_ is not None else None
                                    elems.append(("static", (owner or {}).get("name")))
                        st.events.append(("indexarr", tuple(elems)))
                        continue
                    try:
                        env[v.get("id")] = self.ev(ir.ekids(v)[-1], env, st)
                    except Stuck:
                        env[v.get("id")] = ("opaque",)
            yield ("end", None, st)
            return
        if k == "IfStmt":
            raw = [c for c in s.get("inner", []) if isinstance(c, dict)]
            cond, then = raw[0], raw[1]
            els = raw[2] if len(raw) > 2 else None
            c = self.ev(cond, env, st)
            for truth in (True, False):
                t = self.decide(c)
                if t is not None and t != truth:
                    continue
                st2 = st.copy()
                self.learn(c, truth, st2)
                env2 = dict(env)
                branch = then if truth else els
                if branch is None:
                    yield ("end", None, st2)
                else:
                    yield from self.stmt(branch, env2, st2)
            return
        if k == "ReturnStmt":
            ks = ir.ekids(s)
            if not ks:
                yield ("ret", None, st)
                return
            yield from self.ev_call_aware(ks[0], env, st, "ret")
            return
        if k in ("NullStmt", "StaticAssertDecl", "TypeAliasDecl"):
            yield ("end", None, st)
            return
        if k == "CXXThrowExpr" or (k == "ExprWithCleanups" and any(x.get("kind") == "CXXThrowExpr" for x in ir.walk_expr(s))):
            yield ("throw", None, st)
            return
        yield from self.ev_call_aware(s, env, st, "end")

    def ev_call_aware(self, n, env, st, kind):
        """an expression in statement position: a call of a library function with a body may fork"""
        m = n
        while m.get("kind") in ir.WRAPPERS or m.get("kind") in ("ImplicitCastExpr", "ExprWithCleanups", "CXXBindTemporaryExpr", "MaterializeTemporaryExpr", "CXXFunctionalCastExpr", "CXXConstructExpr"):
            kk = ir.ekids(m)
            if len(kk) != 1:
                break
            m = kk[0]
        if any(x.get("kind") == "CXXThrowExpr" for x in [m]):
            yield ("throw", None, st)
            return
        if m.get("kind") in ("CallExpr", "CXXMemberCallExpr"):
            tgt, this, args = self.resolve(m, env, st)
            if tgt is not None and ir.body(tgt) is not None and "/xtl/" in (self.d.where(tgt) or "") and tgt.get("name") not in ("operator[]", "size", "resize", "get"):
                for out in self.call_fn(tgt, args, st, this):
                    if out[0] == "throw":
                        yield out
                    else:
                        yield (kind, out[1], out[2])
                return
        v = self.ev(n, env, st)
        yield (kind, v, st)

    def resolve(self, m, env, st):
        ks = ir.ekids(m)
        c = ir.strip(ks[0])
        this = env.get("this")
        if c.get("kind") == "MemberExpr":
            tgt = self.d.by_id.get(c.get("referencedMemberDecl"))
            base = ir.ekids(c)
            if base and ir.strip(base[0]).get("kind") != "CXXThisExpr":
                this = self.ev(base[0], env, st)
        else:
            tgt = self.d.by_id.get((c.get("referencedDecl") or {}).get("id"))
        args = [self.ev(a, env, st) for a in ks[1:]]
        return tgt, this, args

    # -- conditions -------------------------------------------------------------------------------------------------------------
    def decide(self, c):
        if c[0] == "bool":
            return c[1]
        return None

    def learn(self, c, truth, st):
        neg = not truth
        while c[0] == "not":
            c = c[1]
            neg = not neg
        if c[0] == "cmp":
            op, a, b = c[1], c[2], c[3]
            if neg:
                op = {"<": ">=", ">=": "<", ">": "<=", "<=": ">", "==": "!=", "!=": "=="}[op]
            if a[0] == "size" and b[0] == "idx":
                op = {"<": ">", ">": "<", "<=": ">=", ">=": "<=", "==": "==", "!=": "!="}[op]
                a, b = b, a
            if a[0] == "idx" and b[0] == "size" and op == "<":
                st.facts.add(("lt", a[1], b[1]))

    # -- expressions ------------------------------------------------------------------------------------------------------------
    def ev(self, n, env, st):
        k = n.get("kind")
        ks = ir.ekids(n)
        if k in ir.WRAPPERS or k in ("ImplicitCastExpr", "CXXStaticCastExpr", "CXXFunctionalCastExpr", "CXXConstCastExpr", "CStyleCastExpr", "SubstNonTypeTemplateParmExpr"):
            if not ks:
                return ("opaque",)
            return self.ev(ks[-1], env, st)
        if k == "ConstantExpr":
            iv = trange.interval(n)
            if iv is not None and iv[0] == iv[1]:
                return ("int", iv[0])
            return self.ev(ks[-1], env, st) if ks else ("opaque",)
        if k == "IntegerLiteral":
            return ("int", int(n.get("value")))
        if k == "CXXBoolLiteralExpr":
            return ("bool", bool(n.get("value")))
        if k == "DeclRefExpr":
            rid = (n.get("referencedDecl") or {}).get("id")
            if rid in env:
                return env[rid]
            dec = self.d.by_id.get(rid)
            if dec is not None and dec.get("kind") == "VarDecl" and ir.ekids(dec):
                iv = trange.interval(ir.ekids(dec)[-1])
                if iv is not None and iv[0] == iv[1]:
                    return ("int", iv[0])
            return ("opaque",)
        if k == "CXXThisExpr":
            return ("this",)
        if k == "MemberExpr":
            nm = n.get("name")
            if nm == "m_callbacks":
                return ("tbl", ())
            if nm == "m_next_index":
                return ("next",)
            return ("opaque",)
        if k == "UnaryOperator":
            op = n.get("opcode")
            v = self.ev(ks[0], env, st)
            if op == "!":
                return ("bool", not v[1]) if v[0] == "bool" else ("not", v)
            if op in ("*", "&"):
                return v
            return ("opaque",)
        if k == "BinaryOperator":
            op = n.get("opcode")
            if op in ("<", ">", "<=", ">=", "==", "!="):
                return ("cmp", op, self.ev(ks[0], env, st), self.ev(ks[1], env, st))
            if op == "=":
                tgt = self.ev(ks[0], env, st)
                val = self.ev(ks[1], env, st)
                if tgt[0] == "tbl":
                    st.events.append(("store", tgt[1], val))
                return tgt
            if op in ("&&", "||"):
                a = self.ev(ks[0], env, st)
                b = self.ev(ks[1], env, st)
                if a[0] == "bool" and a[1] == (op == "||"):
                    return a
                return ("opaque",)
            return ("opaque",)
        if k == "CXXOperatorCallExpr":
            c = ir.strip(ks[0])
            nm = (c.get("referencedDecl") or {}).get("name")
            if nm == "operator[]" and len(ks) == 3:
                return self.subscript(self.ev(ks[1], env, st), self.ev(ks[2], env, st), st)
            if nm == "operator=" and len(ks) == 3:
                tgt = self.ev(ks[1], env, st)
                val = self.ev(ks[2], env, st)
                if tgt[0] == "tbl":
                    st.events.append(("store", tgt[1], val))
                return tgt
            if nm == "operator()":
                f = self.ev(ks[1], env, st)
                args = [self.ev(a, env, st) for a in ks[2:]]
                if f[0] == "tbl":
                    st.events.append(("call", f[1], tuple(args)))
                    return ("result",)
                return ("opaque",)
            if nm in ("operator<", "operator>", "operator<=", "operator>=", "operator==", "operator!=") and len(ks) == 3:
                return ("cmp", nm[8:], self.ev(ks[1], env, st), self.ev(ks[2], env, st))
            return ("opaque",)
        if k == "ArraySubscriptExpr":
            return self.subscript(self.ev(ks[0], env, st), self.ev(ks[1], env, st), st)
        if k in ("CallExpr", "CXXMemberCallExpr"):
            c = ir.strip(ks[0])
            nm = c.get("name") if c.get("kind") == "MemberExpr" else (c.get("referencedDecl") or {}).get("name")
            if nm in ("move", "forward") and len(ks) == 2:
                return self.ev(ks[1], env, st)
            if c.get("kind") == "MemberExpr":
                base = self.ev(ir.ekids(c)[0], env, st) if ir.ekids(c) else ("this",)
                if nm == "size" and base[0] == "tbl":
                    return ("size", base[1])
                if nm == "operator[]" and len(ks) == 2:
                    return self.subscript(base, self.ev(ks[1], env, st), st)
                if base[0] == "idx":
                    return base           # reference_wrapper::get / conversion to the referenced index
                if nm in ("get_class_index", "get_class_static_index"):
                    return ("classidx", base)
            tgt, this, args = self.resolve(n, env, st)
            if tgt is not None and ir.body(tgt) is not None and "/xtl/" in (self.d.where(tgt) or "") and self.depth < 30:
                outs = [o for o in self.call_fn(tgt, args, st, this)]
                normal = [o for o in outs if o[0] != "throw"]
                if len(normal) == 1 and len(outs) == 1:
                    st.facts |= normal[0][2].facts
                    st.events[:] = normal[0][2].events
                    return normal[0][1] if normal[0][1] is not None else ("opaque",)
                raise Stuck("a call of %s inside an expression forks" % nm)
            return ("opaque",)
        if k in ("CXXConstructExpr", "CXXTemporaryObjectExpr", "InitListExpr", "CXXStdInitializerListExpr"):
            if len(ks) == 1:
                return self.ev(ks[0], env, st)
            return ("opaque",)
        if k == "CXXThrowExpr":
            raise Stuck("throw inside an expression")
        return ("opaque",)

    def subscript(self, base, idx, st):
        if base[0] == "indexarr" and idx[0] == "int":
            return ("idx", idx[1])
        if base[0] == "tbl":
            if idx[0] != "idx":
                raise Stuck("table subscripted with %s" % (idx,))
            st.events.append(("sub", base[1], idx[1], ("lt", idx[1], base[1]) in st.facts))
            return ("tbl", base[1] + (idx[1],))
        return ("opaque",)


def rule_fast_inst(rep):
    rep.rule("C17.table", "basic_fast_dispatcher instantiated for three dispatched arguments: dispatch(a0, a1, a2, u) ends in m_callbacks[idx0][idx1][idx2](a0, a1, a2, u) and "
                          "every level is subscripted only after idx_k < size() was established on that path (else the error is raised); insert<D0, D1, D2>(cb) "
                          "stores cb at m_callbacks[idx0][idx1][idx2] and subscripts a level only after resize_container ran on it")
    d = cj.dump(DRIVER, "xtl::")
    rep.cmd(d.cmd)
    R = "C17.table"
    cls = [c for c in d.walk() if c.get("kind") == "ClassTemplateSpecializationDecl" and c.get("name") == "basic_fast_dispatcher" and "wxtl::Base" in " ".join(ir.template_args(c))]
    if not cls:
        rep.broke("C17.table: basic_fast_dispatcher instantiation not found")
        return
    fns = {}
    for f in d.walk():
        if f.get("kind") in ("CXXMethodDecl",) and ir.has_body(f) and ir.enclosing_class(d, f) is cls[0]:
            fns.setdefault(f.get("name"), []).append(f)
    # nested function templates' instantiations live under FunctionTemplateDecl children
    for t in ir.kids(cls[0]):
        if t.get("kind") == "FunctionTemplateDecl":
            for f in ir.kids(t):
                if f.get("kind") == "CXXMethodDecl" and ir.has_body(f) and not ir.is_template_pattern(d, f):
                    fns.setdefault(f.get("name"), []).append(f)
    disp = [f for f in fns.get("dispatch", []) if len(ir.params(f)) == 4]
    ins = [f for f in fns.get("insert", []) if len(ir.params(f)) == 1]
    if not disp or not ins:
        rep.broke("C17.table: dispatch / insert<A, B> instantiations not found (%d, %d)" % (len(disp), len(ins)))
        return
    # ---- dispatch
    f = disp[0]
    sim = FastSim(d)
    args = [("arg", 0), ("arg", 1), ("arg", 2), ("arg", 3)]
    try:
        outs = list(sim.call_fn(f, args, State(), ("this",)))
    except Stuck as e:
        rep.inconclusive(R, "basic_fast_dispatcher::dispatch", "lookup", where=d.where(f), detail=str(e))
        outs = None
    if outs is not None:
        rets = [o for o in outs if o[0] == "ret"]
        throws = [o for o in outs if o[0] == "throw"]
        bad = None
        for o in rets:
            ev = o[2].events
            unguarded = [e for e in ev if e[0] == "sub" and not e[3]]
            calls = [e for e in ev if e[0] == "call"]
            if unguarded:
                bad = "level %d is subscripted with index[%d] on a path that did not establish index[%d] < size(): an unregistered class reads past the table" % (len(unguarded[0][1]), unguarded[0][2], unguarded[0][2])
            elif len(calls) != 1 or calls[0][1] != (0, 1, 2):
                bad = "the handler called is %s, expected m_callbacks[index[0]][index[1]][index[2]]" % (["m_callbacks" + "".join("[index[%d]]" % k for k in c[1]) for c in calls] or "none")
            elif calls[0][2] != tuple(args):
                bad = "the handler receives %s, expected (args..., udargs...) in order" % (calls[0][2],)
            else:
                arrs = [e for e in ev if e[0] == "indexarr"]
                if len(arrs) != 1 or arrs[0][1] != (("classidx", ("arg", 0)), ("classidx", ("arg", 1)), ("classidx", ("arg", 2))):
                    bad = "the index array is %s, expected the class index of each dispatched argument in order" % (arrs[0][1] if arrs else "not built",)
        if not rets:
            bad = "no path returns a handler's result"
        if not bad and len(throws) < 3:
            bad = "only %d path(s) raise the error: each of the three levels must reject an index >= size()" % len(throws)
        (rep.violates if bad else rep.holds)(R, "basic_fast_dispatcher::dispatch", "guarded lookup of m_callbacks[idx0][idx1][idx2]", where=d.where(f),
                                            detail=bad or "%d returning, %d rejecting path(s)" % (len(rets), len(throws)))
    # ---- insert
    f = ins[0]
    sim = FastSim(d)

    class InsSim(FastSim):
        pass
    try:
        st0 = State()
        env_args = [("cb",)]
        # the index array of insert is a local built from get_class_static_index(): recognised as the index array by its type
        outs = []
        simi = FastSim(d)
        orig_ev = simi.ev

        def ev2(n, env, st):
            if n.get("kind") in ("InitListExpr", "CXXConstructExpr") and ("index_ref_type" in ir.qtype(n) or "std::array<std::reference_wrapper" in ir.qtype(n) or "array<std::reference_wrapper" in (n.get("type") or {}).get("desugaredQualType", "")):
                return ("indexarr",)
            if n.get("kind") in ("InitListExpr", "CXXConstructExpr") and ("index_type" in ir.qtype(n) or "std::array<unsigned long" in ir.qtype(n) or "array<unsigned long" in (n.get("type") or {}).get("desugaredQualType", "")):
                return ("indexarr",)
            return orig_ev(n, env, st)
        simi.ev = ev2
        outs = list(simi.call_fn(f, env_args, st0, ("this",)))
    except Stuck as e:
        rep.inconclusive(R, "basic_fast_dispatcher::insert", "registration", where=d.where(f), detail=str(e))
        outs = None
    if outs is not None:
        bad = None
        rets = [o for o in outs if o[0] == "ret"]
        for o in rets:
            ev = o[2].events
            unguarded = [e for e in ev if e[0] == "sub" and not e[3]]
            stores = [e for e in ev if e[0] == "store"]
            if unguarded:
                bad = "level %d is subscripted with index[%d] before resize_container made room for it" % (len(unguarded[0][1]), unguarded[0][2])
            elif len(stores) != 1 or stores[0][1] != (0, 1, 2) or stores[0][2] != ("cb",):
                bad = "the handler is stored at %s, expected m_callbacks[index[0]][index[1]][index[2]] = cb" % ([("m_callbacks" + "".join("[index[%d]]" % k for k in s_[1]), s_[2]) for s_ in stores] or "nowhere")
            else:
                arrs = [e for e in ev if e[0] == "indexarr"]
                if len(arrs) != 1 or arrs[0][1] != (("static", "A"), ("static", "B"), ("static", "C")):
                    bad = "the index array is %s, expected the static class index of each registered type (A, B, C) in order" % (arrs[0][1] if arrs else "not built",)
        if not rets:
            bad = "no path completes the registration"
        (rep.violates if bad else rep.holds)(R, "basic_fast_dispatcher::insert", "stores at m_callbacks[idx0][idx1][idx2] after making room", where=d.where(f),
                                            detail=bad or "%d path(s)" % len(rets))
