"""C13 — base64: table indexing is in range, alphabets agree with RFC 4648, decoder stops at the first invalid
character, and the bit-accumulator constants are mutually consistent.  Round-trip equality itself is not decided."""
from .. import clangjson as cj
from .. import ir
from .. import trange
from ..report import Report
import re

RFC = "ABCDEFGHIJKLMNOPQRSTUVWXYZabcdefghijklmnopqrstuvwxyz0123456789+/"
DRIVER = '#include "xtl/xbase64.hpp"\n'


def unq(v):
    # clang prints string literal values with quotes
    if isinstance(v, str) and len(v) >= 2 and v[0] == '"' and v[-1] == '"':
        return v[1:-1]
    return v


def extent_of(base):
    """fixed extent of a subscripted object or None"""
    b = ir.strip(base)
    if b.get("kind") == "StringLiteral":
        return len(unq(b.get("value", ""))) + 1
    q = ir.qtype(b)
    m = re.search(r"std::array<[^,]+,\s*(\d+)>", q)
    if m:
        return int(m.group(1))
    m = re.search(r"\[(\d+)\]", q)
    if m:
        return int(m.group(1))
    return None


def subscripts(fn):
    """(node, base, index) for builtin subscripts and operator[] calls"""
    for n in ir.walk_expr(fn):
        k = n.get("kind")
        if k == "ArraySubscriptExpr":
            a, b = ir.ekids(n)
            yield n, a, b
        elif k == "CXXOperatorCallExpr":
            ks = ir.ekids(n)
            callee = ir.strip(ks[0])
            if (callee.get("referencedDecl") or {}).get("name") == "operator[]" and len(ks) == 3:
                yield n, ks[1], ks[2]


def resolve_literal(d, n, depth=0):
    """the string literal an expression denotes: a literal, a local initialised with one, or a call of a helper that returns one"""
    if n is None or depth > 4:
        return None
    n = ir.strip(n)
    k = n.get("kind")
    if k == "StringLiteral":
        return unq(n.get("value", ""))
    if k == "DeclRefExpr":
        dd = d.by_id.get((n.get("referencedDecl") or {}).get("id"))
        if dd is not None and dd.get("kind") == "VarDecl" and ir.ekids(dd):
            return resolve_literal(d, ir.ekids(dd)[-1], depth + 1)
        return None
    if k == "CallExpr":
        c = ir.strip(ir.ekids(n)[0])
        fn = d.by_id.get((c.get("referencedDecl") or {}).get("id")) if c.get("kind") == "DeclRefExpr" else None
        if fn is not None and ir.body(fn) is not None:
            rets = [x for x in ir.walk_expr(ir.body(fn)) if x.get("kind") == "ReturnStmt" and ir.ekids(x)]
            if len(rets) == 1:
                return resolve_literal(d, ir.ekids(rets[0])[0], depth + 1)
    return None


def literal_locals(d, fn):
    out = {}
    for v in ir.walk_expr(fn):
        if v.get("kind") == "VarDecl" and ir.ekids(v) and "char" in ir.qtype(v) and ("*" in ir.qtype(v) or "[" in ir.qtype(v)):
            lit = resolve_literal(d, ir.ekids(v)[-1])
            if lit is not None and "\\" not in lit:
                out[v.get("id")] = lit
    return out


FLIP = {"<": ">", ">": "<", "<=": ">=", ">=": "<=", "==": "==", "!=": "!="}
NEGOP = {"<": ">=", ">=": "<", ">": "<=", "<=": ">", "==": "!=", "!=": "=="}


def uncast(t):
    while isinstance(t, tuple) and t and t[0] == "cast":
        t = t[3]
    return t


def norm_cmp(t, is_subject):
    """a (possibly negated / operand-swapped) comparison -> (op, subject, other) with the subject on the left; None if t is not one"""
    t = uncast(t)
    neg = False
    while t[0] == "un" and t[1] == "!":
        neg = not neg
        t = uncast(t[2])
    if t[0] != "bin" or t[1] not in FLIP:
        return None
    op, a, b = t[1], uncast(t[2]), uncast(t[3])
    if not is_subject(a) and is_subject(b):
        op, a, b = FLIP[op], b, a
    if not is_subject(a):
        return None
    if neg:
        op = NEGOP[op]
    return op, a, b


def single_locals(fn):
    """single-assignment locals with a side-effect-free initialiser: name -> sx of the initialiser"""
    from .. import fstring as fs
    out = {}
    for k, v in fs.local_sx(fn).items():
        if not any(x[0] == "call" and not (x[1][0] == "ref" and str(x[1][1]).split("::")[-1] in ("size_t",)) for x in ir.subterms(v) if isinstance(x, tuple)) or \
                all(x[1][0] == "mem" and x[1][2] in ("size", "length") for x in ir.subterms(v) if isinstance(x, tuple) and x[0] == "call"):
            out[k] = v
    return out


def sub(t, loc):
    from .. import fstring as fs
    return fs.subst_locals(t, loc)


def loop_env(fn):
    env = {}
    for n in ir.walk_expr(fn):
        if n.get("kind") == "ForStmt":
            r = trange.for_loop_var_range(n)
            if r:
                env[r[0]] = r[1]
    return env


def unbounded_var(d, idx, env):
    n = ir.strip(idx)
    while n.get("kind") in ("ImplicitCastExpr", "CXXStaticCastExpr", "CXXFunctionalCastExpr", "CStyleCastExpr", "ParenExpr") and ir.ekids(n):
        n = ir.strip(ir.ekids(n)[-1])
    if n.get("kind") != "DeclRefExpr":
        return False
    rid = (n.get("referencedDecl") or {}).get("id")
    if rid in env:
        return False
    tr = trange.type_range(ir.qtype(n))
    return tr is not None and tr[1] - tr[0] >= 2 ** 31


def rule_index(rep, d, fns):
    rep.rule("C13.index", "every subscript of a fixed-extent table (std::array<int,256>, the 65-byte alphabet literal) has an "
                          "index whose type-derived interval lies inside the extent")
    for fn in fns:
        env = loop_env(fn)
        lits = literal_locals(d, fn)
        env["__lits__"] = lits
        env["__by_id__"] = d.by_id
        for node, base, idx in subscripts(fn):
            ext = extent_of(base)
            bs = ir.strip(base)
            if ext is None and bs.get("kind") == "DeclRefExpr" and (bs.get("referencedDecl") or {}).get("id") in lits:
                ext = len(lits[(bs.get("referencedDecl") or {}).get("id")]) + 1
            if ext is None:
                continue
            iv = trange.interval(idx, env)
            txt = d.text(node)[:70].replace("\n", " ")
            if iv is None:
                rep.inconclusive("C13.index", fn["name"], "subscript `%s`" % re.sub(r'"[^"]*"', '"<alphabet>"', txt), where=d.where(node),
                                 detail="index interval unknown")
                continue
            cons = "subscript of extent %d" % ext
            label = re.sub(r'"[^"]*"', '"<alphabet>"', txt)
            if 0 <= iv[0] and iv[1] <= ext - 1:
                rep.holds("C13.index", fn["name"], label, where=d.where(node), detail="index in [%d,%d], extent %d" % (iv[0], iv[1], ext))
            elif unbounded_var(d, idx, env):
                # the index is a plain variable / parameter whose bound is a matter of the surrounding loop or of the callers, not of its type:
                # nothing is known - that is not the same as knowing it can be out of range
                rep.inconclusive("C13.index", fn["name"], label, where=d.where(node), detail="the index is a variable whose range is not derivable from its type or a recognised loop")
            else:
                rep.violates("C13.index", fn["name"], label, where=d.where(node),
                             detail="index expression `%s` ranges over [%d,%d] but the table has %d elements" % (
                                 d.text(idx)[:60], iv[0], iv[1], ext))


class _Multi(dict):
    """several function nodes presented as one (the decoder plus the helpers/lambdas it was split into)"""


def fold_loop_values(d, loop):
    """the list of values a for-loop's single integer variable takes, folded with ceval (the body must not modify it) -> list or None"""
    from .. import ceval
    raw = loop.get("inner", [])
    init, cond, inc = raw[0], raw[2], raw[3]
    if not all(isinstance(x, dict) and x.get("kind") for x in (init, cond, inc)):
        return None
    vds = [c for c in ir.kids(init) if c.get("kind") == "VarDecl"]
    if len(vds) != 1 or not ir.ekids(vds[0]):
        return None
    v = vds[0]
    body = raw[4] if len(raw) > 4 and isinstance(raw[4], dict) else None
    for x in (ir.walk_expr(body) if body else []):
        if x.get("kind") in ("UnaryOperator", "BinaryOperator", "CompoundAssignOperator") and ir.ekids(x) and \
                (x.get("opcode") in ("++", "--") or ((x.get("opcode") or "").endswith("=") and x.get("opcode") not in ("==", "!=", "<=", ">="))):
            l_ = ir.strip(ir.ekids(x)[0])
            if l_.get("kind") == "DeclRefExpr" and (l_.get("referencedDecl") or {}).get("id") == v.get("id"):
                return None
    it = ir.strip(inc)
    try:
        cur = ceval.conv(ceval.ev(ir.ekids(v)[-1], ceval.Ctx(d)), ir.qtype(v))
        out = []
        while len(out) <= 300:
            if not ceval.ev(cond, ceval.Ctx(d, {v.get("id"): cur})):
                return out
            out.append(cur)
            if it.get("kind") == "UnaryOperator" and it.get("opcode") in ("++", "--"):
                cur = ceval.checked(cur + (1 if it.get("opcode") == "++" else -1), ir.qtype(v), it.get("opcode"))
            elif it.get("kind") == "CompoundAssignOperator" and it.get("opcode") in ("+=", "-="):
                stp = ceval.ev(ir.ekids(it)[1], ceval.Ctx(d, {v.get("id"): cur}))
                cur = ceval.checked(cur + (stp if it.get("opcode") == "+=" else -stp), ir.qtype(v), it.get("opcode"))
            else:
                return None
    except (ceval.Unknown, ceval.UB):
        return None
    return None


def rule_alpha(rep, d, dec, enc, helpers=()):
    if helpers:
        merged = _Multi(dec)
        merged["inner"] = list(dec.get("inner", [])) + [h for h in helpers]
        dec = merged
    rep.rule("C13.alpha", "the literal that builds the decode table and the literals indexed by the encoder are the RFC 4648 standard "
                          "alphabet; the pad character is '='; the decode table is filled with a sentinel outside 0..63, entry "
                          "alphabet[i] is set to i for exactly i = 0..63, and the decoder tests against that same sentinel")
    for fn in (dec, enc):
        lits = [n for n in ir.walk_expr(fn) if n.get("kind") == "StringLiteral" and len(unq(n.get("value", ""))) >= 32]
        # alphabets reached through a local / helper (`const char* alphabet = detail::base64_alphabet();`)
        via = [(vid, lit) for vid, lit in literal_locals(d, fn).items() if len(lit) >= 32]
        for vid, lit in via:
            holder = d.by_id.get(vid)
            if holder is not None and not any(unq(x.get("value", "")) == lit for x in lits):
                lits.append({"kind": "StringLiteral", "value": '"%s"' % lit, "loc": holder.get("loc"), "range": holder.get("range")})
        if not lits:
            # the alphabet as a function of the sextet (`detail::base64_char(i)`): folded exactly for i = 0..63
            from .. import ceval
            done = False
            seen_f = set()
            for c in ir.walk_expr(fn):
                if c.get("kind") != "CallExpr" or not ir.ekids(c):
                    continue
                callee = ir.strip(ir.ekids(c)[0])
                g = d.by_id.get((callee.get("referencedDecl") or {}).get("id")) if callee.get("kind") == "DeclRefExpr" else None
                if g is None or g.get("id") in seen_f or not ir.in_repo(g) or ir.body(g) is None or len(ir.params(g)) != 1:
                    continue
                rt = (g.get("type") or {}).get("qualType", "").split("(")[0].strip()
                if rt not in ("char", "unsigned char", "const char") or trange.type_range(ir.qtype(ir.params(g)[0])) is None:
                    continue
                seen_f.add(g.get("id"))
                pid = ir.params(g)[0].get("id")
                ret, decls = ceval._single_return(g)
                if ret is None or decls:
                    rep.inconclusive("C13.alpha", fn["name"], "alphabet function %s" % g.get("name"), where=d.where(g), detail="not a single-return function")
                    done = True
                    continue
                table = []
                try:
                    for i in range(64):
                        table.append(ceval.ev(ir.ekids(ret)[0], ceval.Ctx(d, {pid: i})) & 0xFF)
                except (ceval.Unknown, ceval.UB) as e:
                    rep.inconclusive("C13.alpha", fn["name"], "alphabet function %s" % g.get("name"), where=d.where(g), detail="not foldable: %s" % e)
                    done = True
                    continue
                done = True
                diff = [i for i in range(64) if table[i] != ord(RFC[i])]
                if diff:
                    rep.violates("C13.alpha", fn["name"], "alphabet function %s" % g.get("name"), where=d.where(g),
                                 detail="%s(%d) is %r, the RFC 4648 alphabet has %r there (folded for every sextet 0..63)" % (g.get("name"), diff[0], chr(table[diff[0]]), RFC[diff[0]]))
                else:
                    rep.holds("C13.alpha", fn["name"], "alphabet function %s" % g.get("name"), where=d.where(g), detail="folded for every sextet 0..63: the RFC 4648 alphabet")
            if not done:
                rep.inconclusive("C13.alpha", fn["name"], "alphabet literal", detail="no alphabet literal found")
        for i, l in enumerate(lits):
            v = unq(l.get("value"))
            if v == RFC:
                rep.holds("C13.alpha", fn["name"], "alphabet literal #%d" % (i + 1), where=d.where(l))
            else:
                diff = [j for j in range(min(len(v), 64)) if v[j] != RFC[j]]
                rep.violates("C13.alpha", fn["name"], "alphabet literal #%d" % (i + 1), where=d.where(l),
                             detail="differs from the RFC 4648 alphabet (length %d, first difference at %s)" % (len(v), diff[:1]))
    # pad
    pads = [n for n in ir.walk_expr(enc) if n.get("kind") == "CharacterLiteral"]
    pad_ok = [p for p in pads if int(p.get("value", 0)) == ord("=")]
    if pads and len(pad_ok) == len(pads):
        rep.holds("C13.alpha", enc["name"], "pad character", where=d.where(pads[0]))
    elif not pads:
        rep.inconclusive("C13.alpha", enc["name"], "pad character", detail="no character literal in the encoder")
    else:
        bad = [p for p in pads if p not in pad_ok][0]
        rep.violates("C13.alpha", enc["name"], "pad character", where=d.where(bad), detail="pads with character code %s, not '='" % bad.get("value"))
    # padding to a multiple of 4
    mods = [t for t in (ir.sx(n) for n in ir.walk_expr(enc) if n.get("kind") == "BinaryOperator" and n.get("opcode") == "%")]
    out_mods = [t for t in mods if any(x[0] == "call" and x[1][0] == "mem" and x[1][2] in ("size", "length") and uncast(x[1][1])[0] == "ref" and uncast(x[1][1])[1] not in [p_.get("name") for p_ in ir.params(enc)]
                                      for x in ir.subterms(t) if isinstance(x, tuple))]
    if any(uncast(t[3]) == ("lit", "4") for t in mods):
        rep.holds("C13.alpha", enc["name"], "pads to a multiple of 4")
    elif out_mods:
        rep.violates("C13.alpha", enc["name"], "pads to a multiple of 4", where=d.where(enc), detail="the output length is taken modulo something other than 4: " + str([ir.show(m) for m in out_mods]))
    elif getattr(rep, "group_judged", 0) > 0:
        rep.holds("C13.alpha", enc["name"], "pads to a multiple of 4", where=d.where(enc), detail="every group of characters is completed to four with '=' (C13.group)")
    else:
        rep.inconclusive("C13.alpha", enc["name"], "pads to a multiple of 4", where=d.where(enc), detail="no `output.size() % 4` padding condition (a padding count derived from the input length needs a different argument)")
    # decode table construction
    fills = []
    seen_fill = set()
    for n in ir.walk_expr(dec):
        if n.get("kind") == "CXXMemberCallExpr" and n.get("id") not in seen_fill:
            t = ir.sx(n)
            if t[0] == "call" and t[1][0] == "mem" and t[1][2] == "fill" and len(t) == 3:
                seen_fill.add(n.get("id"))
                fills.append((n, t[2]))
    if not fills:
        # std::fill(T.begin(), T.end(), k) / std::fill_n(T.begin(), 256, k)
        for n in ir.walk_expr(dec):
            if n.get("kind") == "CallExpr" and n.get("id") not in seen_fill:
                t = ir.sx(n)
                nm = str(t[1][1]).split("::")[-1] if t[0] == "call" and t[1][0] == "ref" else ""
                if nm == "fill" and len(t) == 5 and uncast(t[2])[0] == "call" and uncast(t[2])[1][0] == "mem" and uncast(t[2])[1][2] in ("begin", "data") \
                        and uncast(t[3])[0] == "call" and uncast(t[3])[1][0] == "mem" and uncast(t[3])[1][2] == "end" and uncast(t[2])[1][1] == uncast(t[3])[1][1]:
                    seen_fill.add(n.get("id"))
                    fills.append((n, t[4]))
    sentinel = None
    if len(fills) == 1:
        iv = trange.interval(ir.ekids(fills[0][0])[-1])
        if iv and iv[0] == iv[1]:
            sentinel = iv[0]
    if sentinel is None:
        rep.inconclusive("C13.alpha", dec["name"], "table fill", detail="cannot find the single T.fill(<constant>)")
        return None
    # the element type must represent the sentinel on every target: plain `char` is unsigned on ARM/PowerPC or with -funsigned-char
    obj = ir.ekids(ir.strip(ir.ekids(fills[0][0])[0]))
    if fills[0][0].get("kind") == "CallExpr":
        obj = ir.ekids(ir.strip(ir.ekids(ir.strip(ir.ekids(fills[0][0])[1]))[0]))
    elem = re.search(r"std::array<([^,]+),", ir.qtype(obj[0]) if obj else "")
    elem_t = elem.group(1).strip() if elem else "?"
    if 0 <= sentinel <= 63:
        rep.violates("C13.alpha", dec["name"], "table fill", where=d.where(fills[0][0]), detail="sentinel %d is a valid sextet" % sentinel)
    elif sentinel < 0 and elem_t in ("char", "const char"):
        rep.violates("C13.alpha", dec["name"], "table fill", where=d.where(fills[0][0]),
                     detail="the table stores the sentinel %d in elements of plain `char`, whose signedness is implementation-defined: where char is unsigned the entry reads back "
                            "as %d and never equals the sentinel, so decoding does not stop at the first invalid character" % (sentinel, sentinel + 256))
    else:
        rep.holds("C13.alpha", dec["name"], "table fill", where=d.where(fills[0][0]), detail="sentinel %d in elements of type %s" % (sentinel, elem_t))
    # builder loop
    built = False
    for n in ir.walk_expr(dec):
        if n.get("kind") != "ForStmt":
            continue
        r = trange.for_loop_var_range(n)
        assigns = [a for a in ir.walk_expr(n) if a.get("kind") == "BinaryOperator" and a.get("opcode") == "="]
        loc = single_locals(dec)
        litnames = {(d.by_id.get(vid) or {}).get("name") for vid in literal_locals(d, dec)}
        loopvar = (d.by_id.get(r[0]) or {}).get("name") if r else None
        rawinc = n.get("inner", [])[3] if len(n.get("inner", [])) > 3 and isinstance(n.get("inner", [])[3], dict) else None
        stepped = {((ir.strip(ir.ekids(x)[0]).get("referencedDecl") or {}).get("name")) for x in (ir.walk_expr(rawinc) if rawinc else [])
                   if x.get("kind") == "UnaryOperator" and x.get("opcode") == "++"} | \
                  ({(ir.strip(ir.ekids(rawinc)[0]).get("referencedDecl") or {}).get("name")} if rawinc and rawinc.get("kind") == "UnaryOperator" else set())

        def alpha_at(x):
            """alphabet[i] in any spelling -> the position term i, else None"""
            x = uncast(x)
            if x[0] == "index" and (uncast(x[1])[0] == "str" or (uncast(x[1])[0] == "ref" and uncast(x[1])[1] in litnames)):
                return uncast(x[2])
            if x[0] == "un" and x[1] == "*" and uncast(x[2])[0] == "ref" and uncast(x[2])[1] in litnames and uncast(x[2])[1] in stepped and loopvar in stepped:
                return ("ref", loopvar)        # a pointer that starts at the alphabet and advances in lockstep with the counter
            return None
        for a in assigns:
            t = ir.sx(a)
            lhs, rhs = sub(t[2], loc), sub(t[3], loc)
            cands = [alpha_at(s_) for s_ in ir.subterms(lhs[2])] if lhs[0] == "index" else []
            cands = [c_ for c_ in cands if c_ is not None]
            if cands:
                built = True
                var = cands[0]
                rv = rhs
                while rv[0] == "cast":
                    rv = rv[3]
                rng_ = r[1] if r else None
                if r is None:
                    # the values the loop variable takes, folded from the loop's own init / condition / step (a count-down loop, a stride)
                    rng_ = fold_loop_values(d, n)
                if rng_ is None:
                    rep.inconclusive("C13.alpha", dec["name"], "table builder loop", where=d.where(n), detail="the values of the loop variable are not foldable")
                elif (isinstance(rng_, tuple) and rng_ != (0, 63)) or (isinstance(rng_, list) and sorted(rng_) != list(range(64))):
                    rep.violates("C13.alpha", dec["name"], "table builder loop", where=d.where(n),
                                 detail="the loop does not run over exactly i = 0..63 (found %s)" % (rng_ if isinstance(rng_, tuple) else ("%d values, %s..%s" % (len(rng_), min(rng_) if rng_ else "-", max(rng_) if rng_ else "-")),))
                elif var[0] != "ref" or rv != var:
                    rep.violates("C13.alpha", dec["name"], "table builder loop", where=d.where(a),
                                 detail="entry for alphabet[%s] is set to `%s`, expected the position itself" % (ir.show(var), ir.show(rhs)))
                else:
                    rep.holds("C13.alpha", dec["name"], "table builder loop", where=d.where(a), detail="T[alphabet[i]] = i for i in 0..63")
    if not built:
        rep.inconclusive("C13.alpha", dec["name"], "table builder loop", detail="no `T[alphabet[i]] = i` assignment recognised")
    return sentinel


def rule_stop(rep, d, dec, sentinel):
    rep.rule("C13.stop", "the decoder's loop leaves at the first character whose table entry is the sentinel, before that "
                         "character contributes to the output, and every later lookup uses the same index expression")
    loc = single_locals(dec)

    def lookups(t):
        return [x for x in ir.subterms(t) if isinstance(x, tuple) and x[0] == "index" and uncast(x[1])[0] != "str" and "lit" != uncast(x[1])[0]
                and not (uncast(x[1])[0] == "ref" and uncast(x[1])[1] in ("input",))]
    # the table: the std::array / int[] object that is subscripted in the loop
    loops = [n for n in ir.walk_expr(dec) if n.get("kind") in ("CXXForRangeStmt", "ForStmt", "WhileStmt", "DoStmt")
             and any("std::array" in ir.qtype(b_) or "int[" in ir.qtype(b_) or "int [" in ir.qtype(b_) for _, b_, _ in subscripts(n))
             and any(x.get("kind") in ("BreakStmt", "ReturnStmt") for x in ir.walk_expr(n))]
    if not loops:
        loops = [n for n in ir.walk_expr(dec) if n.get("kind") == "CXXForRangeStmt"]
    if len(loops) != 1:
        rep.inconclusive("C13.stop", dec["name"], "input loop", detail="expected one loop over the input that reads the table, found %d" % len(loops))
        return
    loop = loops[0]
    bodyn = [c for c in ir.kids(loop) if c.get("kind") == "CompoundStmt"]
    if not bodyn:
        rep.inconclusive("C13.stop", dec["name"], "input loop", detail="loop body is not a block")
        return
    stmts = ir.kids(bodyn[-1])

    def table_lookups(node):
        out = []
        for x in ir.walk_expr(node):
            pass
        t = sub(ir.sx(node), loc) if node.get("kind") not in ("IfStmt", "DeclStmt", "CompoundStmt") else None
        return t
    guard = None
    for i, s_ in enumerate(stmts):
        k = s_.get("kind")
        if k == "DeclStmt":
            # single-assignment locals are substituted into their uses; any other declaration that reads the table counts as a use
            vs = [v for v in ir.kids(s_) if v.get("kind") == "VarDecl"]
            if all(v.get("name") in loc for v in vs):
                continue
        if k == "IfStmt" and guard is None:
            ks = ir.ekids(s_)
            cond_t = sub(ir.sx(ks[0]), loc)
            c = norm_cmp(cond_t, lambda x: x[0] == "index")
            if c is None:
                if not lookups(cond_t) and not any(lookups(sub(ir.sx(x), loc)) for x in ir.walk_expr(ks[1]) if x.get("kind") in ("BinaryOperator", "CompoundAssignOperator", "CXXMemberCallExpr")):
                    continue
                rep.violates("C13.stop", dec["name"], "guard", where=d.where(s_),
                             detail="the first statement reading the table is not a test of the entry against the sentinel (condition `%s`)" % ir.show(cond_t)[:80])
                return
            op, subj, other = c
            try:
                oval = int(str(other[1])) if other[0] == "lit" else (-int(str(uncast(other[2])[1])) if other[0] == "un" and other[1] == "-" else None)
            except (ValueError, TypeError):
                oval = None
            then = ks[1]
            leaves = any(x.get("kind") in ("BreakStmt", "ReturnStmt") for x in ir.walk_expr(then))
            if op == "==" and leaves and oval == sentinel:
                rep.holds("C13.stop", dec["name"], "guard", where=d.where(s_), detail="if (T[c] == %d) leave" % sentinel)
                guard = subj
                continue
            if op == "<" and leaves and oval == 0 and sentinel is not None and sentinel < 0:
                rep.holds("C13.stop", dec["name"], "guard", where=d.where(s_), detail="if (T[c] < 0) leave; sentinel %d" % sentinel)
                guard = subj
                continue
            rep.violates("C13.stop", dec["name"], "guard", where=d.where(s_),
                         detail="the first statement reading the table is not `if (T[c] == <sentinel %s>) break/return` (condition `%s`, leaves loop: %s)"
                                % (sentinel, ir.show(cond_t)[:80], leaves))
            return
        # any other statement: the table entries it reads
        reads = []
        for x in [s_] + list(ir.walk_expr(s_)):
            if x.get("kind") in ("BinaryOperator", "CompoundAssignOperator", "CXXMemberCallExpr", "CallExpr", "CXXOperatorCallExpr", "DeclStmt", "VarDecl"):
                try:
                    reads += lookups(sub(ir.sx(x), loc))
                except Exception:
                    pass
        if not reads:
            continue
        if guard is None:
            rep.violates("C13.stop", dec["name"], "guard", where=d.where(s_),
                         detail="the table entry is used (`%s`) before any test against the sentinel" % d.text(s_)[:60])
            return
        for t in reads:
            if t != guard:
                rep.violates("C13.stop", dec["name"], "later lookup", where=d.where(s_),
                             detail="lookup `%s` differs from the guarded lookup `%s`" % (ir.show(t), ir.show(guard)))
            else:
                rep.holds("C13.stop", dec["name"], "later lookup", where=d.where(s_))
            break
    if guard is None:
        rep.violates("C13.stop", dec["name"], "guard", where=d.where(loop), detail="no sentinel test in the decoding loop")


def consts(fn):
    """constants of the `val = (val << a) + x; valb += b; ... (val >> valb) & m; valb -= c` accumulator scheme.
    Only statements of exactly that shape contribute; a differently shaped (possibly correct) algorithm yields empty
    sets, which the caller reports as inconclusive, not as a violation."""
    out = {"shift_in": set(), "count_add": set(), "count_sub": set(), "mask": set(), "init": set(), "emit_cmp": set(), "tail": set(), "keep": set(), "added": []}
    counters = {}
    # `if (valb < 0) continue;` guards the rest of the iteration with valb >= 0
    skips_rest = set()
    for s_ in ir.walk_expr(fn):
        if s_.get("kind") == "IfStmt":
            ks_ = [x for x in ir.kids(s_) if x.get("kind") != "DeclStmt"]
            if len(ks_) == 2:
                th = ks_[1]
                inner_ = [x for x in ir.kids(th)] if th.get("kind") == "CompoundStmt" else [th]
                if len(inner_) == 1 and inner_[0].get("kind") == "ContinueStmt":
                    skips_rest.add(id(ir.strip(ks_[0])))
    for n in ir.walk_expr(fn):
        if n.get("kind") == "VarDecl" and ir.qtype(n) == "int" and ir.ekids(n):
            r = trange.interval(ir.ekids(n)[-1])
            if r and r[0] == r[1] and r[0] < 0:
                counters[n.get("name")] = r[0]
                out["init"].add(r[0])
    def lit(t):
        t = uncast(t)
        return int(t[1]) if t[0] == "lit" and str(t[1]).lstrip("-").isdigit() else None
    loc = single_locals(fn)
    skip = set()
    for n in ir.walk_expr(fn):
        k = n.get("kind")
        if k == "BinaryOperator" and n.get("opcode") == "=":
            t = ir.sx(n)
            x, rhs = uncast(t[2]), sub(t[3], loc)
            keep = None
            if rhs[0] == "bin" and rhs[1] == "&" and lit(rhs[3]) is not None:      # val = ((val << a) + e) & keepmask
                keep, rhs = lit(rhs[3]), rhs[2]
            if x[0] == "ref" and rhs[0] == "bin" and rhs[1] == "+" and rhs[2][0] == "bin" and rhs[2][1] == "<<" and rhs[2][2] == x and lit(rhs[2][3]) is not None:
                out["shift_in"].add(lit(rhs[2][3]))
                if keep is not None:
                    out["keep"].add(keep)
                # the node of the added term (second operand of +), for the zero-extension obligation
                plus = ir.strip(ir.ekids(n)[1])
                if plus.get("kind") == "BinaryOperator" and plus.get("opcode") == "&":
                    plus = ir.strip(ir.ekids(plus)[0])
                if plus.get("kind") == "BinaryOperator" and plus.get("opcode") == "+":
                    out["added"].append(ir.ekids(plus)[1])
        if k == "CompoundAssignOperator":
            t = ir.sx(n)
            if t[2][0] == "ref" and t[2][1] in counters and lit(t[3]) is not None:
                out["count_add" if n.get("opcode") == "+=" else "count_sub" if n.get("opcode") == "-=" else "init"].add(lit(t[3]))
        if k == "BinaryOperator" and n.get("opcode") == "&":
            t = sub(ir.sx(n), loc)
            if t[2][0] == "bin" and t[2][1] == ">>" and lit(t[3]) is not None:
                out["mask"].add(lit(t[3]))
                sh = t[2]
                # tail form ((val << a) >> (valb + b))
                if sh[2][0] == "bin" and sh[2][1] == "<<" and sh[3][0] == "bin" and sh[3][1] == "+":
                    out["tail"].add((lit(sh[2][3]), lit(sh[3][3])))
        is_cmp = k == "BinaryOperator" and n.get("opcode") in (">=", ">", "<", "<=", "==", "!=")
        is_not = k == "UnaryOperator" and n.get("opcode") == "!" and ir.strip(ir.ekids(n)[0]).get("kind") == "BinaryOperator" and \
            ir.strip(ir.ekids(n)[0]).get("opcode") in (">=", ">", "<", "<=", "==", "!=")
        if is_not:
            skip.add(id(ir.strip(ir.ekids(n)[0])))
        if (is_cmp and id(n) not in skip) or is_not:
            c = norm_cmp(ir.sx(n), lambda x: x[0] == "ref" and x[1] in counters)     # operand order and negation normalised
            if c is not None:
                op, _, neg = c
                neg = uncast(neg)
                v = lit(neg) if neg[0] == "lit" else (-lit(neg[2]) if neg[0] == "un" and neg[1] == "-" and lit(neg[2]) is not None else None)
                if op == ">" and v is not None:
                    op, v = ">=", v + 1          # integers: x > k  <=>  x >= k+1
                if id(n) in skips_rest and v is not None and op in ("<", "<="):
                    op, v = ">=", (v if op == "<" else v + 1)      # the rest of the iteration runs when the test fails
                out["emit_cmp"].add((op, v))
    return out


def rule_acc(rep, d, dec, enc):
    rep.rule("C13.group", "an encoder that builds each character directly from input bytes: per block of emissions, every bit of every alphabet index has the "
                          "provenance RFC 4648 prescribes (b0[7:2] | b0[1:0] b1[7:4] | b1[3:0] b2[7:6] | b2[5:0], zeros where the tail has no byte); no sign copies, no overlap")
    rep.rule("C13.acc", "bit-accumulator constants are mutually consistent: bits shifted in per input unit = bits added to the "
                        "counter (6 for decode, 8 for encode), bits removed per output unit (8 / 6) = width of the output mask = "
                        "-(initial counter), emission happens while the counter is >= 0, and the encoder's tail test is `> -6`")
    for fn, nin, nout in ((dec, 6, 8), (enc, 8, 6)):
        c = consts(fn)
        name = fn["name"]
        if not c["init"]:
            # no counter that starts negative: a different (equally valid) bookkeeping of the pending bits - the constants below do not apply
            if fn is enc and getattr(rep, "group_judged", 0) > 0:
                rep.note("%s: no bit accumulator; the groups of characters are decided by bit provenance (C13.group)" % name)
                rep.counts_as("C13.acc", 8)
                continue
            rep.inconclusive("C13.acc", name, "accumulator scheme", where=d.where(fn), detail="the `valb` scheme (counter starting at -%d) is not used here" % nout)
            continue
        # the tail group must not depend on the accumulated VALUE (zero bits are data too)
        if fn is enc:
            accs = set()
            for n_ in ir.walk_expr(fn):
                if n_.get("kind") == "BinaryOperator" and n_.get("opcode") == "=":
                    t_ = ir.sx(n_)
                    x_, r_ = uncast(t_[2]), uncast(t_[3])
                    if x_[0] == "ref" and r_[0] == "bin" and r_[1] in ("+", "|", "&") and any(y == ("bin", "<<", x_, y2) for y in ir.subterms(r_) for y2 in [y[3] if isinstance(y, tuple) and len(y) == 4 else None] if isinstance(y, tuple) and len(y) == 4 and y[0] == "bin" and y[1] == "<<" and uncast(y[2]) == x_):
                        accs.add(x_[1])
            for n_ in ir.walk_expr(fn):
                if n_.get("kind") == "IfStmt":
                    ct = ir.sx(ir.ekids(n_)[0])
                    body_has_tail = any(x.get("kind") == "BinaryOperator" and x.get("opcode") == "&" and any(y[0] == "bin" and y[1] == ">>" and uncast(y[2])[0] == "bin" and uncast(y[2])[1] == "<<"
                                                                                                              for y in ir.subterms(ir.sx(x)) if isinstance(y, tuple)) for x in ir.walk_expr(ir.ekids(n_)[1]))
                    if body_has_tail and any(y[0] == "ref" and y[1] in accs for y in ir.subterms(ct) if isinstance(y, tuple)):
                        rep.violates("C13.acc", name, "tail group", where=d.where(n_),
                                     detail="the last group is emitted only if `%s`: whether pending bits exist depends on how many bytes were consumed, not on their value (trailing zero bits are lost)" % ir.show(ct)[:60])
        checks = [
            ("shift-in width", c["shift_in"], {nin}),
            ("counter increment", c["count_add"], {nin}),
            ("counter decrement", c["count_sub"], {nout}),
            ("output mask", c["mask"], {(1 << nout) - 1}),
            ("initial counter", c["init"], {-nout}),
        ]
        for what, got, want in checks:
            if not got:
                rep.inconclusive("C13.acc", name, what, where=d.where(fn), detail="constant not found (different algorithm shape?)")
            elif got == want:
                rep.holds("C13.acc", name, what, where=d.where(fn), detail=str(sorted(got)))
            else:
                rep.violates("C13.acc", name, what, where=d.where(fn), detail="found %s, the %d-in/%d-out scheme needs %s" % (sorted(got), nin, nout, sorted(want)))
        # a mask applied to the accumulator must keep every pending bit: nin + nout - gcd(nin, nout) bits
        import math
        need = nin + nout - math.gcd(nin, nout)
        for kmask in sorted(c["keep"]):
            bits = kmask.bit_length() if (kmask & (kmask + 1)) == 0 else 0
            if bits >= need:
                rep.holds("C13.acc", name, "accumulator mask", where=d.where(fn), detail="keeps %d bits, %d can be pending" % (bits, need))
            else:
                rep.violates("C13.acc", name, "accumulator mask", where=d.where(fn),
                             detail="the accumulator is masked with %#x (%d low bits) but up to %d bits are pending before emission" % (kmask, bits, need))
        # the value shifted in must be zero-extended and fit the nin-bit slot (encoder: a byte; decoder: table entries are 0..63 by C13.alpha)
        if fn is enc:
            env = {}
            for v in ir.walk_expr(fn):
                if v.get("kind") == "VarDecl" and ir.ekids(v):
                    tr = trange.type_range(ir.qtype(v))
                    iv = trange.interval(ir.ekids(v)[-1], env)
                    if tr is not None:
                        env[v.get("id")] = iv if (iv is not None and tr[0] <= iv[0] and iv[1] <= tr[1]) else tr
            for a in c["added"]:
                iv = trange.interval(a, env)
                if iv is not None and 0 <= iv[0] and iv[1] <= (1 << nin) - 1:
                    rep.holds("C13.acc", name, "shifted-in value", where=d.where(a), detail="in [%d,%d]" % iv)
                else:
                    rep.violates("C13.acc", name, "shifted-in value", where=d.where(a),
                                 detail="`%s` ranges over %s: a byte >= 0x80 is sign-extended into the pending bits instead of contributing 8 bits" % (d.text(a)[:40], iv))
        if fn is enc:
            if not c["tail"]:
                rep.inconclusive("C13.acc", name, "tail group", where=d.where(fn), detail="tail expression not recognised")
            elif c["tail"] == {(nin, nin)}:
                rep.holds("C13.acc", name, "tail group", where=d.where(fn), detail="((val << 8) >> (valb + 8))")
            else:
                rep.violates("C13.acc", name, "tail group", where=d.where(fn), detail="tail shifts %s, expected both %d" % (sorted(c["tail"]), nin))
        want_cmp = {(">=", 0)} if fn is dec else {(">=", 0), (">=", -nout + 1)}
        if c["emit_cmp"] == want_cmp:
            rep.holds("C13.acc", name, "emission conditions", where=d.where(fn), detail=str(sorted(c["emit_cmp"])))
        elif not c["emit_cmp"]:
            rep.inconclusive("C13.acc", name, "emission conditions", where=d.where(fn), detail="none found")
        else:
            if any(op != ">=" or v is None for op, v in c["emit_cmp"]):
                rep.inconclusive("C13.acc", name, "emission conditions", where=d.where(fn), detail="comparison form not recognised: %s" % sorted(c["emit_cmp"], key=str))
            elif c["emit_cmp"] < want_cmp:
                rep.inconclusive("C13.acc", name, "emission conditions", where=d.where(fn),
                                 detail="only %s of the scheme's counter tests %s are written as tests of the counter (the others are decided some other way)" % (sorted(c["emit_cmp"]), sorted(want_cmp)))
            else:
                rep.violates("C13.acc", name, "emission conditions", where=d.where(fn),
                             detail="counter is tested with %s, the scheme needs %s" % (sorted(c["emit_cmp"]), sorted(want_cmp)))


def rule_group(rep, d, enc):
    """encoders that assemble each output character directly from input bytes (three bytes -> four characters, explicit tails): the provenance of
    every bit of every alphabet index is computed (sa/bitprov.py) and each block of emissions must be the RFC 4648 split of consecutive bytes
    b0 b1 b2 into b0[7:2] | b0[1:0] b1[7:4] | b1[3:0] b2[7:6] | b2[5:0] (zero bits where the tail has no byte).  -> number of blocks judged"""
    from .. import bitprov, linear
    R = "C13.group"
    pnames = {p.get("name") for p in ir.params(enc) if "string" in ir.qtype(p) or "string" in ir.wtype(p)}
    assigned = {}
    for x in ir.walk_expr(enc):
        if x.get("kind") in ("BinaryOperator", "CompoundAssignOperator", "UnaryOperator") and (
                (x.get("opcode") or "").endswith("=") and x.get("opcode") not in ("==", "!=", "<=", ">=") or x.get("opcode") in ("++", "--")):
            t_ = ir.strip(ir.ekids(x)[0])
            if t_.get("kind") == "DeclRefExpr":
                rid_ = (t_.get("referencedDecl") or {}).get("id")
                assigned[rid_] = assigned.get(rid_, 0) + 1
    linit = {v.get("id"): ir.ekids(v)[-1] for v in ir.walk_expr(enc) if v.get("kind") == "VarDecl" and ir.ekids(v) and v.get("id") not in assigned
             and trange.type_range(ir.qtype(v)) is not None}
    lits = literal_locals(d, enc)

    def offset(e):
        l_ = linear.lin(ir.sx(e), lambda t: t[1] if t[0] == "ref" else None)
        if l_ is None:
            return None
        base = tuple(sorted((k_, v_) for k_, v_ in l_.items() if k_ != ""))
        return (base, l_.const())

    def byte_of(n):
        if n.get("kind") == "CXXOperatorCallExpr":
            t = ir.sx(n)
            if t[0] == "index" and t[1][0] == "ref" and t[1][1] in pnames:
                return offset(ir.ekids(n)[2])
        if n.get("kind") == "CXXMemberCallExpr":
            t = ir.sx(n)
            if t[0] == "call" and t[1][0] == "mem" and t[1][2] == "at" and t[1][1][0] == "ref" and t[1][1][1] in pnames and len(t) == 3:
                return offset(ir.ekids(n)[1])
        return None

    def alphabet_index(x):
        """x is the character handed to the output: alphabet[IDX] or f(IDX) -> IDX node"""
        x = ir.strip(x)
        while x.get("kind") in ("CXXStaticCastExpr", "CStyleCastExpr", "CXXFunctionalCastExpr") and ir.ekids(x):
            x = ir.strip(ir.ekids(x)[-1])
        if x.get("kind") == "ArraySubscriptExpr":
            base, idx = ir.ekids(x)
            b = ir.strip(base)
            if b.get("kind") == "StringLiteral" and unq(b.get("value", "")) == RFC:
                return idx
            if b.get("kind") == "DeclRefExpr" and lits.get((b.get("referencedDecl") or {}).get("id")) == RFC:
                return idx
        return None

    blocks = {}
    order = []
    for n in ir.walk_expr(enc):
        if n.get("kind") != "CXXMemberCallExpr":
            continue
        t = ir.sx(n)
        if not (t[0] == "call" and t[1][0] == "mem" and t[1][2] == "push_back" and t[1][1][0] == "ref" and t[1][1][1] not in pnames and len(t) == 3):
            continue
        idx = alphabet_index(ir.ekids(n)[1])
        if idx is None:
            continue
        par = d.parent_of(n)
        while par is not None and par.get("kind") != "CompoundStmt":
            par = d.parent_of(par)
        key = par.get("id") if par is not None else None
        if key not in blocks:
            blocks[key] = []
            order.append(key)
        blocks[key].append((n, idx))
    # only encoders whose indices are built from input bytes directly
    if not any(any(byte_of(x) is not None for x in ir.walk_expr(enc)) for _ in (0,)):
        return 0
    judged = 0
    for key in order:
        ems = blocks[key]
        sext = []
        unk = None
        for n, idx in ems:
            try:
                bits, sg = bitprov.Prov(d, byte_of, linit).ev(idx)
            except bitprov.Unknown as e:
                unk = (n, str(e))
                break
            sext.append((n, bits))
        lab = enc["name"]
        cons = "group of %d characters at line %s" % (len(ems), (d.where(ems[0][0]) or "").split(":")[-1])
        if unk:
            rep.inconclusive(R, lab, cons, where=d.where(unk[0]), detail="index of `%s` not tracked: %s" % (d.text(unk[0])[:50], unk[1]))
            continue
        if any(any(b_ is None for b_ in bits[:6]) for _, bits in sext):
            rep.inconclusive(R, lab, cons, where=d.where(ems[0][0]), detail="some bit of an index is not tracked")
            continue
        judged += 1
        bad = None
        bytes_seen = sorted({b_[0] for _, bits in sext for b_ in bits[:6] if isinstance(b_, tuple) and b_[0] != "or"}, key=lambda kk: kk[1])
        if not bytes_seen or len({kk[0] for kk in bytes_seen}) != 1:
            rep.inconclusive(R, lab, cons, where=d.where(ems[0][0]), detail="the characters of the group do not come from consecutive elements of one base index")
            continue
        base, k0 = bytes_seen[0]

        def B(i, j):
            return ((base, k0 + i), j)
        want_full = [[B(0, 2), B(0, 3), B(0, 4), B(0, 5), B(0, 6), B(0, 7)],
                     [B(1, 4), B(1, 5), B(1, 6), B(1, 7), B(0, 0), B(0, 1)],
                     [B(2, 6), B(2, 7), B(1, 0), B(1, 1), B(1, 2), B(1, 3)],
                     [B(2, 0), B(2, 1), B(2, 2), B(2, 3), B(2, 4), B(2, 5)]]
        nbytes = {2: 1, 3: 2, 4: 3}.get(len(sext))
        if nbytes is None:
            rep.inconclusive(R, lab, cons, where=d.where(ems[0][0]), detail="%d characters in one block: not a base64 group" % len(sext))
            continue
        for ci, (n, bits) in enumerate(sext):
            want = [b_ if b_[0][1] - k0 < nbytes else 0 for b_ in want_full[ci]]
            for j in range(6):
                if bits[j] != want[j]:
                    bad = bad or (n, "bit %d of character %d of the group is %s, RFC 4648 puts %s there" % (
                        j, ci + 1, _bit_name(bits[j], base, k0), _bit_name(want[j], base, k0)))
            if any(b_ != 0 for b_ in bits[6:]):
                hi = [j for j in range(6, len(bits)) if bits[j] != 0][0]
                bad = bad or (n, "bit %d of the alphabet index of character %d can be set (%s): the index leaves 0..63" % (hi, ci + 1, _bit_name(bits[hi], base, k0)))
        # the group is completed to four characters with '='
        blk = d.by_id.get(key) if key else None
        pads = 0
        pads_known = blk is not None
        if blk is not None:
            for x in ir.kids(blk):
                x0 = ir.strip(x)
                if x0.get("kind") != "CXXMemberCallExpr":
                    continue
                tx = ir.sx(x0)
                if tx[0] == "call" and tx[1][0] == "mem" and tx[1][1][0] == "ref" and tx[1][1][1] not in pnames:
                    if tx[1][2] == "push_back" and len(tx) == 3 and uncast(tx[2]) == ("lit", ord("=")):
                        pads += 1
                    elif tx[1][2] == "append" and len(tx) == 4 and uncast(tx[3]) == ("lit", ord("=")) and uncast(tx[2])[0] == "lit":
                        try:
                            pads += int(str(uncast(tx[2])[1]))
                        except ValueError:
                            pads_known = False
        if not bad and pads_known and pads + len(sext) != 4 and (pads or len(sext) < 4):
            bad = (ems[-1][0], "the %d characters of this group are completed with %d pad character(s): a base64 group has four" % (len(sext), pads))
        if bad:
            rep.violates(R, lab, cons, where=d.where(bad[0]), detail=bad[1] + ("" if "pad" in bad[1] else " (a plain `char` widened to int carries copies of its sign bit)"))
        else:
            rep.holds(R, lab, cons, where=d.where(ems[0][0]), detail="%d byte(s) -> %d characters: every index bit comes from the RFC 4648 position" % (nbytes, len(sext)))
    return judged


def _bit_name(b, base, k0):
    if b in (0, 1):
        return "the constant %d" % b
    if b is None:
        return "untracked"
    if b[0] == "or":
        return "%s OR %s" % (_bit_name(b[1], base, k0), _bit_name(b[2], base, k0))
    return "bit %d of byte %d" % (b[1], b[0][1] - k0)


def rule_input(rep, d, fns):
    """subscripts of the input string: the index must be provably inside [0, size()) from the conditions that dominate it"""
    from .. import flow, linear
    from ..linear import Lin
    rep.rule("C13.input", "the input string is read through the range-for only, or through subscripts whose index is proven to lie in [0, input.size()) by the "
                          "conditions that dominate the access (an unsigned `len - 1` needs len >= 1)")
    for fn in fns:
        pnames = {p.get("name") for p in ir.params(fn) if "basic_string" in ir.qtype(p) or "string" in ir.wtype(p)}
        subs = []
        for n in ir.walk_expr(fn):
            if n.get("kind") == "CXXOperatorCallExpr":
                t = ir.sx(n)
                if t[0] == "index" and t[1][0] == "ref" and t[1][1] in pnames:
                    subs.append(n)
            if n.get("kind") == "CXXMemberCallExpr":
                t = ir.sx(n)
                if t[0] == "call" and t[1][0] == "mem" and t[1][2] in ("at", "front", "back") and t[1][1][0] == "ref" and t[1][1][1] in pnames:
                    subs.append(n)
        if not subs:
            rep.holds("C13.input", fn["name"], "input access", where=d.where(fn), detail="no subscript of the input: it is traversed by the range-for only", nontrivial=False)
            continue
        paths = flow.function_paths(fn, with_ctor_inits=False, events=lambda x: x.get("kind") == "CXXOperatorCallExpr")
        linit = {}
        for v in ir.walk_expr(fn):
            if v.get("kind") == "VarDecl" and ir.ekids(v):
                linit[v.get("name")] = ir.sx(ir.ekids(v)[-1])

        def symmap(t):
            if t[0] == "ref" and t[1] not in pnames:
                return "v:" + t[1]
            if t[0] == "call" and t[1][0] == "mem" and t[1][2] in ("size", "length") and t[1][1][0] == "ref" and t[1][1][1] in pnames:
                return "S"
            return None
        # counters that start at 0 and are only ever incremented by one: `k != L` (L unsigned, not modified) then means k < L
        upcount = set()
        for v in ir.walk_expr(fn):
            if v.get("kind") == "VarDecl" and ir.ekids(v) and trange.interval(ir.ekids(v)[-1]) == (0, 0):
                nm = v.get("name")
                mods_ = []
                for x in ir.walk_expr(fn):
                    if x.get("kind") in ("UnaryOperator", "BinaryOperator", "CompoundAssignOperator") and ir.ekids(x):
                        l_ = ir.strip(ir.ekids(x)[0])
                        if l_.get("kind") == "DeclRefExpr" and (l_.get("referencedDecl") or {}).get("id") == v.get("id"):
                            if x.get("kind") == "UnaryOperator" and x.get("opcode") == "++":
                                mods_.append(True)
                            elif x.get("kind") == "UnaryOperator" and x.get("opcode") in ("--",):
                                mods_.append(False)
                            elif x.get("kind") != "UnaryOperator" and x.get("opcode", "").endswith("=") and x.get("opcode") not in ("==", "!=", "<=", ">="):
                                mods_.append(False)
                if mods_ and all(mods_):
                    upcount.add(nm)
        verdict = {}
        for path in paths:
            for i, st in enumerate(path):
                if st[0] != "ev" or st[1] not in subs:
                    continue
                n = st[1]
                t = ir.sx(n)
                if t[0] != "index":
                    verdict[id(n)] = (n, False, "element access `%s` without an index proof" % d.text(n)[:40], True)
                    continue
                idx = linear.lin(t[2], symmap)
                facts = []
                for st2 in path[:i]:
                    if st2[0] == "cond":
                        c = ir.sx(st2[1])
                        if c[0] == "bin" and c[1] in linear.NEG:
                            op = c[1] if st2[2] else linear.NEG[c[1]]
                            a, b = linear.lin(c[2], symmap), linear.lin(c[3], symmap)
                            if op == "!=" and a is not None and b is not None:
                                for x_, y_, o_ in ((uncast(c[2]), b, "<"), (uncast(c[3]), a, ">")):
                                    if x_[0] == "ref" and x_[1] in upcount:
                                        op = o_
                            if a is not None and b is not None:
                                facts += linear.atom_facts(op, a, b)
                # locals initialised from input.size() are <= S at that point only if never incremented: use as upper bound fact
                for nm, init in linit.items():
                    li = linear.lin(init, symmap)
                    if li is not None and li == Lin({"S": 1}):
                        facts.append(Lin({"S": 1, "v:" + nm: -1}))
                unsigned_vars = tuple("v:" + v.get("name") for v in ir.walk_expr(fn) if v.get("kind") == "VarDecl" and ir.qtype(v).replace("const ", "") in
                                      ("unsigned long", "unsigned int", "unsigned long long", "unsigned short", "unsigned char"))
                ok_lo = idx is not None and linear.entails(facts, idx, unsigned_vars)
                ok_hi = idx is not None and linear.entails(facts, Lin({"S": 1, "": -1}) - idx, unsigned_vars)
                ok = ok_lo and ok_hi
                # when is "not provable" a finding?  The lower bound: the index subtracts something and nothing excludes the wrap-around.  The upper
                # bound: the path compares the index's own variables with size() and the comparison is too weak.  An index bounded through other
                # quantities (a run length computed by an earlier loop, a multiple of the group size) is beyond these facts: inconclusive.
                definite = False
                if idx is not None and not ok_lo and (idx.const() < 0 or any(v_ < 0 for k_, v_ in idx.items() if k_ != "")):
                    definite = True
                if idx is not None and ok_lo and not ok_hi:
                    ivars = {k_ for k_ in idx if k_ not in ("", "S")}
                    if not ivars or any(("S" in f_) and (set(f_) & ivars) for f_ in facts):
                        definite = True
                if idx is None:
                    definite = False
                prev = verdict.get(id(n), (n, True, "", False))
                verdict[id(n)] = (n, prev[1] and ok, prev[2] or ("" if ok else "the index `%s` is not provably inside [0, size()) on a path reaching `%s`: for an empty (or all-padding) input "
                                                                   "an unsigned `len - 1` wraps and the read is out of bounds" % (ir.show(t[2]), d.text(n)[:40])), prev[3] or (definite and not ok))
        for n, ok, det, definite in [(v_[0], v_[1], v_[2], v_[3] if len(v_) > 3 else True) for v_ in verdict.values()]:
            if ok:
                rep.holds("C13.input", fn["name"], "subscript `%s`" % d.text(n)[:40], where=d.where(n))
            elif definite:
                rep.violates("C13.input", fn["name"], "subscript `%s`" % d.text(n)[:40], where=d.where(n), detail=det)
            else:
                rep.inconclusive("C13.input", fn["name"], "subscript `%s`" % d.text(n)[:40], where=d.where(n),
                                 detail="the index `%s` is bounded through quantities these facts do not relate to size() (a length computed by an earlier loop, a multiple of the group size)" % ir.show(ir.sx(n)[2])[:40])


def run(tier):
    rep = Report("C13", tier, "other",
                 "Structural necessary conditions decided on the resolved AST of base64decode/base64encode: table-index intervals "
                 "from types and masks, alphabet/sentinel/pad agreement with RFC 4648, stop-at-first-invalid guard shape, and "
                 "mutual consistency of the bit-accumulator constants.  Round-trip equality (the accumulator arithmetic itself) is "
                 "NOT decided.",
                 trusted_base=["clang 14 resolved AST", "sa/trange.py interval rules"],
                 assumptions=["x86-64: char is signed 8-bit"])
    d = cj.dump(DRIVER, "xtl::")
    rep.cmd(d.cmd)
    fns = {f["name"]: f for f in ir.functions(d) if f.get("name") in ("base64decode", "base64encode")}
    helpers = [f for f in ir.functions(d) if f.get("name") not in ("base64decode", "base64encode") and "xbase64.hpp" in str((f.get("loc") or {}).get("file"))]
    if set(fns) != {"base64decode", "base64encode"}:
        raise cj.AnalysisBroken("anchor functions base64decode/base64encode not found (found %s)" % sorted(fns))
    dec, enc = fns["base64decode"], fns["base64encode"]
    rule_index(rep, d, [dec, enc] + helpers)
    # an encoder without the bit accumulator: the groups of characters it emits are decided by bit provenance, and so is their padding
    rep.group_judged = rule_group(rep, d, enc) if not consts(enc)["init"] else 0
    sentinel = rule_alpha(rep, d, dec, enc, helpers)
    if sentinel is not None:
        rule_stop(rep, d, dec, sentinel)
    rule_acc(rep, d, dec, enc)
    rule_input(rep, d, [dec, enc])
    # the result is a function of the argument alone: no object that outlives the call takes part (a static / thread_local scratch buffer hands back the
    # previous call's output on a path that forgets to clear it)
    for f_ in [dec, enc] + list(helpers):
        st_ = [v for v in ir.walk_expr(f_) if v.get("kind") == "VarDecl" and (v.get("storageClass") == "static" or v.get("tls")) and
               not ir.qtype(v).startswith("const ") and not v.get("constexpr")]
        if st_:
            rep.violates("C13.input", f_.get("name"), "no state survives the call", where=d.where(st_[0]),
                         detail="`%s` is a %s local that is written by the function: what a call returns depends on the calls before it" % (
                             st_[0].get("name"), "thread_local" if st_[0].get("tls") else "static"))
        else:
            rep.holds("C13.input", f_.get("name"), "no state survives the call", where=d.where(f_), detail="no mutable static / thread_local local", nontrivial=False)
    rep.unit("2 functions: base64decode, base64encode")
    return rep
