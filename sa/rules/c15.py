"""C15 — cmp_* compare integers by mathematical value, for every ordered pair of builtin integer types.

Interval abstract interpretation of every instantiation: each operand carries the interval of its type refined by the
sign facts of the path; a builtin comparison is *faithful* only if every conversion on the way to it preserves the
mathematical value for all values of the path's interval.  The result of the function is a decision tree whose leaves
are constants or faithful comparisons of the two original operands; each leaf is compared with the specification.
"""
import itertools
from .. import clangjson as cj
from ..report import Report
from ..witness import WitnessTU

TYPES = [("signed char", True, 8), ("unsigned char", False, 8), ("char", True, 8), ("short", True, 16), ("unsigned short", False, 16),
         ("int", True, 32), ("unsigned int", False, 32), ("long", True, 64), ("unsigned long", False, 64),
         ("long long", True, 64), ("unsigned long long", False, 64)]
TINFO = {n: (s, b) for n, s, b in TYPES}
TINFO["bool"] = (False, 1)
FUNCS = ["cmp_equal", "cmp_not_equal", "cmp_less", "cmp_greater", "cmp_less_equal", "cmp_greater_equal"]
SPEC = {"cmp_equal": "==", "cmp_not_equal": "!=", "cmp_less": "<", "cmp_greater": ">", "cmp_less_equal": "<=", "cmp_greater_equal": ">="}
NEG = {"==": "!=", "!=": "==", "<": ">=", ">=": "<", ">": "<=", "<=": ">"}
SWAP = {"==": "==", "!=": "!=", "<": ">", ">": "<", "<=": ">=", ">=": "<="}


def trange(t):
    s, b = TINFO[t]
    if b == 1:
        return (0, 1)
    return (-(1 << (b - 1)), (1 << (b - 1)) - 1) if s else (0, (1 << b) - 1)


class Inconclusive(Exception):
    pass


def canon_type(q):
    q = q.replace("const ", "").strip()
    alias = {"unsigned": "unsigned int", "unsigned short int": "unsigned short", "short int": "short", "long int": "long",
             "unsigned long int": "unsigned long", "long long int": "long long", "unsigned long long int": "unsigned long long"}
    return alias.get(q, q)


def ntype(n):
    t = n.get("type") or {}
    return canon_type(t.get("desugaredQualType") or t.get("qualType") or "")


class Val:
    """('sym', name, lo, hi) faithful value of operand `name` known to lie in [lo,hi]; or ('const', v); or
    ('bool', tree) where tree is a decision tree: ('leaf', const|('rel', op, a, b)) / ('if', sym, 'neg?', t, f)"""


def eval_fn(d, fn, args, env_facts, depth=0):
    """Evaluate function body with args (abstract values). Returns list of (facts, result) leaves."""
    if depth > 6:
        raise Inconclusive("inlining depth")
    params = [c for c in fn.get("inner", ()) if c.get("kind") == "ParmVarDecl"]
    body = [c for c in fn.get("inner", ()) if c.get("kind") == "CompoundStmt"]
    if not body or len(params) != len(args):
        raise Inconclusive("callee %s has no body" % fn.get("name"))
    env = {p["id"]: a for p, a in zip(params, args)}
    stmts = [c for c in body[0].get("inner", ())]
    out = eval_stmts(d, stmts, env, env_facts, depth, fn)
    if not out:
        raise Inconclusive("no return in " + fn.get("name", "?"))
    return out


def eval_stmts(d, stmts, env, facts, depth, fn):
    """statements of a small function body: declarations with initialisers, if/else on splittable conditions, returns -> leaves (facts, value)"""
    for i, s in enumerate(stmts):
        if not isinstance(s, dict):
            continue
        k = s.get("kind")
        if k == "CompoundStmt":
            return eval_stmts(d, [c for c in s.get("inner", ())] + stmts[i + 1:], env, facts, depth, fn)
        if k == "DeclStmt":
            for c in s.get("inner", ()):
                if c.get("kind") in ("TypeAliasDecl", "TypedefDecl", "UsingDecl", "StaticAssertDecl"):
                    continue
                if c.get("kind") == "VarDecl":
                    init = [x for x in c.get("inner", ()) if isinstance(x, dict) and not x.get("kind", "").endswith("Attr")]
                    if not init:
                        raise Inconclusive("uninitialised local in " + fn.get("name", "?"))
                    leaves = eval_expr(d, init[-1], env, facts, depth)
                    # the local takes the value of each leaf of its initialiser: continue per leaf
                    out = []
                    for f2, v in leaves:
                        env2 = dict(env)
                        env2[c["id"]] = v
                        rest = [x for x in s.get("inner", ())]
                        rest = rest[rest.index(c) + 1:]
                        tail = ([{"kind": "DeclStmt", "inner": rest}] if rest else []) + stmts[i + 1:]
                        out += eval_stmts(d, tail, env2, f2, depth, fn)
                    return out
                raise Inconclusive("local declaration in " + fn.get("name", "?"))
            continue
        if k == "ReturnStmt":
            return eval_expr(d, s["inner"][0], env, facts, depth)
        if k == "IfStmt":
            inner = [c for c in s.get("inner", ()) if isinstance(c, dict)]
            cond, then = inner[0], inner[1]
            els = inner[2] if len(inner) > 2 else None
            out = []
            for f, c in eval_expr(d, cond, env, facts, depth):
                for f2, truth in split_cond(c, f):
                    if not feasible(f2):
                        continue
                    branch = then if truth else els
                    out += eval_stmts(d, ([branch] if branch is not None else []) + stmts[i + 1:], dict(env), f2, depth, fn)
            return out
        if k == "NullStmt":
            continue
        raise Inconclusive("statement %s in %s" % (k, fn.get("name")))
    return []


def refine(facts, sym, lo, hi):
    f = dict(facts)
    l0, h0 = f[sym]
    f[sym] = (max(l0, lo), min(h0, hi))
    return f


def feasible(facts):
    if not all(lo <= hi for k, (lo, hi) in ((k, v) for k, v in facts.items() if k != "ord")):
        return False
    return "ord" not in facts or any(ord_feasible(o, facts) for o in facts["ord"])


def conv(v, to_type, facts):
    """Integral conversion of abstract value v to to_type under facts."""
    lo, hi = trange(to_type)
    if v[0] == "const":
        x = v[1]
        if lo <= x <= hi:
            return v
        return ("unfaithful", "constant %d does not fit %s" % (x, to_type))
    if v[0] == "sym":
        l, h = facts[v[1]]
        if lo <= l and h <= hi:
            return v
        return ("unfaithful", "operand %s in [%d,%d] converted to %s [%d,%d] changes value" % (v[1], l, h, to_type, lo, hi))
    if v[0] == "unfaithful":
        return v
    if v[0] in ("rel", "bconst"):
        return v             # a bool promoted to an integer type keeps its truth value
    raise Inconclusive("conversion of " + v[0])


def eval_expr(d, n, env, facts, depth):
    """returns list of (facts, value) — value: ('sym',name) | ('const',int) | ('bconst',bool) | ('rel',op,a,b) | ('unfaithful',why)"""
    k = n.get("kind")
    inner = [c for c in n.get("inner", ()) if isinstance(c, dict)]
    if k in ("ParenExpr", "ExprWithCleanups", "MaterializeTemporaryExpr", "ConstantExpr"):
        return eval_expr(d, inner[0], env, facts, depth)
    if k == "ImplicitCastExpr" or k in ("CXXStaticCastExpr", "CXXFunctionalCastExpr", "CStyleCastExpr"):
        ck = n.get("castKind")
        sub = eval_expr(d, inner[0], env, facts, depth)
        if ck in ("LValueToRValue", "NoOp", "FunctionToPointerDecay"):
            return sub
        if ck == "IntegralCast":
            return [(f, conv(v, ntype(n), f)) for f, v in sub]
        if ck == "IntegralToBoolean":
            raise Inconclusive("integral-to-boolean conversion")
        raise Inconclusive("cast kind %s" % ck)
    if k == "DeclRefExpr":
        rid = n["referencedDecl"]["id"]
        if rid in env:
            return [(facts, env[rid])]
        raise Inconclusive("reference to %s" % n["referencedDecl"].get("name"))
    if k == "IntegerLiteral":
        return [(facts, ("const", int(n["value"])))]
    if k == "CXXBoolLiteralExpr":
        return [(facts, ("bconst", bool(n["value"])))]
    if k == "UnaryOperator" and n.get("opcode") == "!":
        out = []
        for f, v in eval_expr(d, inner[0], env, facts, depth):
            out.append((f, negate(v)))
        return out
    if k == "UnaryOperator" and n.get("opcode") in ("-", "+"):
        out = []
        for f, v in eval_expr(d, inner[0], env, facts, depth):
            if v[0] == "const":
                out.append((f, ("const", -v[1] if n["opcode"] == "-" else v[1])))
            else:
                raise Inconclusive("unary arithmetic on operand")
        return out
    if k == "ConditionalOperator":
        out = []
        for f, c in eval_expr(d, inner[0], env, facts, depth):
            for f2, truth in split_cond(c, f):
                if not feasible(f2):
                    continue
                out += eval_expr(d, inner[1] if truth else inner[2], env, f2, depth)
        return out
    if k == "BinaryOperator":
        op = n.get("opcode")
        if op in ("&&", "||"):
            out = []
            for f, a in eval_expr(d, inner[0], env, facts, depth):
                for f2, truth in split_cond(a, f):
                    if not feasible(f2):
                        continue
                    if (op == "&&" and not truth) or (op == "||" and truth):
                        out.append((f2, ("bconst", truth)))
                    else:
                        out += eval_expr(d, inner[1], env, f2, depth)
            return out
        if op in SWAP:
            out = []
            for f, a in eval_expr(d, inner[0], env, facts, depth):
                for f2, b in eval_expr(d, inner[1], env, f, depth):
                    if a[0] == "unfaithful" or b[0] == "unfaithful":
                        out.append((f2, ("unfaithful", (a if a[0] == "unfaithful" else b)[1])))
                    elif op in ("==", "!=") and (a[0] in ("rel", "bconst") or b[0] in ("rel", "bconst")):
                        # `x == true`, `x != false`, `x == y` on truth values
                        def asb(x):
                            if x[0] == "const" and x[1] in (0, 1):
                                return ("bconst", bool(x[1]))
                            return x
                        a2, b2 = asb(a), asb(b)
                        if a2[0] == "bconst" and b2[0] != "bconst":
                            a2, b2 = b2, a2
                        if b2[0] != "bconst":
                            raise Inconclusive("comparison of two truth values")
                        keep = b2[1] == (op == "==")
                        out.append((f2, a2 if keep else negate(a2)))
                    elif a[0] in ("sym", "const") and b[0] in ("sym", "const"):
                        out.append((f2, ("rel", op, a, b)))
                    else:
                        raise Inconclusive("comparison of non-integers")
            return out
        raise Inconclusive("binary operator " + str(op))
    if k == "CallExpr":
        callee = inner[0]
        while callee.get("kind") in ("ImplicitCastExpr", "ParenExpr"):
            callee = callee["inner"][0]
        if callee.get("kind") != "DeclRefExpr":
            raise Inconclusive("indirect call")
        fn = d.by_id.get(callee["referencedDecl"]["id"])
        if fn is None or not any(c.get("kind") == "CompoundStmt" for c in fn.get("inner", ())):
            raise Inconclusive("callee %s not available" % callee["referencedDecl"].get("name"))
        # evaluate arguments left to right (cartesian over splits)
        combos = [(facts, [])]
        for a in inner[1:]:
            nxt = []
            for f, vals in combos:
                for f2, v in eval_expr(d, a, env, f, depth):
                    nxt.append((f2, vals + [v]))
            combos = nxt
        out = []
        for f, vals in combos:
            out += eval_fn(d, fn, vals, f, depth + 1)
        return out
    if k in ("CXXTemporaryObjectExpr", "CXXConstructExpr", "CXXScalarValueInitExpr", "InitListExpr") and not [c for c in inner if c.get("kind") != "CXXDefaultArgExpr"]:
        # a tag object (`std::true_type{}`, `typename same_signedness<T, U>::type()`): it selects an overload, which clang has resolved; it carries no value
        return [(facts, ("tag",))]
    if k in ("CXXConstructExpr",) and len(inner) == 1:
        # copy / move of a tag passed by value
        sub = eval_expr(d, inner[0], env, facts, depth)
        if all(v == ("tag",) for _, v in sub):
            return sub
    if k == "CXXMemberCallExpr" or (k == "CallExpr" and False):
        pass
    raise Inconclusive("expression kind %s" % k)


def negate(v):
    if v[0] == "bconst":
        return ("bconst", not v[1])
    if v[0] == "rel":
        return ("rel", NEG[v[1]], v[2], v[3])
    if v[0] == "unfaithful":
        return v
    raise Inconclusive("negation of " + v[0])


def split_cond(c, facts):
    """A condition value -> list of (refined facts, truth). Only sign tests against constants can be split."""
    if c[0] == "bconst":
        return [(facts, c[1])]
    if c[0] == "unfaithful":
        raise Inconclusive("branch on an unfaithful comparison: " + c[1])
    if c[0] == "rel":
        op, a, b = c[1], c[2], c[3]
        if a[0] == "const" and b[0] == "sym":
            op, a, b = SWAP[op], b, a
        if a[0] == "sym" and b[0] == "const":
            s, kx = a[1], b[1]
            lo, hi = facts[s]
            BIG = 1 << 70
            t = {"<": (-BIG, kx - 1), "<=": (-BIG, kx), ">": (kx + 1, BIG), ">=": (kx, BIG), "==": (kx, kx)}.get(op)
            fneg = {"<": (kx, BIG), "<=": (kx + 1, BIG), ">": (-BIG, kx), ">=": (-BIG, kx - 1)}.get(op)
            if t is None or fneg is None:
                raise Inconclusive("branch on %s against a constant" % op)
            return [(refine(facts, s, *t), True), (refine(facts, s, *fneg), False)]
        if a[0] == "const" and b[0] == "const":
            x, y = a[1], b[1]
            return [(facts, {"<": x < y, "<=": x <= y, ">": x > y, ">=": x >= y, "==": x == y, "!=": x != y}[op])]
        rop = rel_tu(c)
        if rop is not None:
            cur = set(facts.get("ord", ("lt", "eq", "gt")))
            ft = dict(facts); ft["ord"] = tuple(sorted(cur & ORD_HOLDS[rop]))
            ff = dict(facts); ff["ord"] = tuple(sorted(cur - ORD_HOLDS[rop]))
            return [(ft, True), (ff, False)]
        raise Inconclusive("branch on a comparison of an operand with itself")
    raise Inconclusive("branch on " + c[0])


ORD_HOLDS = {"<": {"lt"}, "<=": {"lt", "eq"}, ">": {"gt"}, ">=": {"gt", "eq"}, "==": {"eq"}, "!=": {"lt", "gt"}}


def ord_feasible(o, facts):
    tl_, th = facts["t"]
    ul, uh = facts["u"]
    if o not in facts.get("ord", ("lt", "eq", "gt")):
        return False
    if o == "lt":
        return tl_ < uh
    if o == "gt":
        return th > ul
    return max(tl_, ul) <= min(th, uh)


def rel_tu(v):
    """('rel', op, a, b) between the two operands -> op normalised to 't op u', else None"""
    rop, a, b = v[1], v[2], v[3]
    if a[0] == "sym" and b[0] == "sym" and {a[1], b[1]} == {"t", "u"}:
        return SWAP[rop] if a[1] == "u" else rop
    return None


def check_leaf(fname, facts, v):
    """returns (ok, why): the leaf must agree with the specification for every ordering of the mathematical values
    that is feasible in this path's box."""
    op = SPEC[fname]
    box = "t in [%d,%d], u in [%d,%d]" % (facts["t"][0], facts["t"][1], facts["u"][0], facts["u"][1])
    if v[0] == "unfaithful":
        return False, "result depends on a value-changing conversion: " + v[1]
    for o in ("lt", "eq", "gt"):
        if not ord_feasible(o, facts):
            continue
        want = o in ORD_HOLDS[op]
        if v[0] == "bconst":
            got = v[1]
        elif v[0] == "rel":
            rop = rel_tu(v)
            if rop is None:
                return False, "result is not a comparison of the two operands: %s" % (v,)
            got = o in ORD_HOLDS[rop]
        else:
            return False, "unexpected result " + str(v)
        if got != want:
            word = {"lt": "t < u", "eq": "t == u", "gt": "t > u"}[o]
            return False, "when %s (possible for %s) the function returns %s but `t %s u` is %s" % (word, box, got, op, want)
    return True, ""


def run(tier):
    rep = Report("C15", tier, "proof",
                 "Interval abstract interpretation over clang's resolved AST of every instantiation cmp_X<T,U> for all ordered "
                 "pairs of the 11 builtin integer types (incl. char): conversions are checked value-preserving under the path's "
                 "sign facts, and every leaf of the resulting decision tree is compared with the mathematical specification. "
                 "constexpr usability is discharged by static_asserts.",
                 trusted_base=["clang 14's resolved AST (implicit conversions, callees) for x86-64 LP64",
                               "the C++ integral conversion rules as encoded in conv()/trange() of sa/rules/c15.py"],
                 assumptions=["target x86-64 LP64: char is signed 8 bit, long is 64 bit"])
    rep.rule("C15.sign", "for every path and every value of the path's intervals the result equals the comparison of the "
                         "mathematical integers; no comparison is reached through a value-changing conversion")
    rep.rule("C15.constexpr", "each cmp_* function is usable in a constant expression and gives the mathematical answer on boundary values")
    names = [t[0] for t in TYPES]
    src = ['#include "xtl/xcompare.hpp"']
    for f in FUNCS:
        for a in names:
            for b in names:
                src.append("template bool xtl::%s<%s, %s>(%s, %s);" % (f, a, b, a, b))
    d = cj.dump("\n".join(src) + "\n", "xtl::")
    rep.cmd(d.cmd)
    # find instantiations
    found = {}
    for n in d.walk():
        if n.get("kind") == "FunctionDecl" and n.get("name") in FUNCS and any(c.get("kind") == "CompoundStmt" for c in n.get("inner", ())):
            params = [c for c in n.get("inner", ()) if c.get("kind") == "ParmVarDecl"]
            if len(params) != 2:
                continue
            ta, tb = ntype(params[0]), ntype(params[1])
            if ta in TINFO and tb in TINFO:
                found[(n["name"], ta, tb)] = n
    rep.unit("%d instantiations of the six functions found in the dump" % len(found))
    for f in FUNCS:
        for a in names:
            for b in names:
                fn = found.get((f, a, b))
                sc = "<%s, %s>" % (a, b)
                if fn is None:
                    rep.inconclusive("C15.sign", f, "instantiation", scenario=sc, detail="instantiation not found in the dump")
                    continue
                facts = {"t": trange(a), "u": trange(b)}
                try:
                    leaves = eval_fn(d, fn, [("sym", "t"), ("sym", "u")], facts)
                except Inconclusive as e:
                    rep.inconclusive("C15.sign", f, "instantiation", scenario=sc, where=d.where(fn), detail=str(e))
                    continue
                bad = None
                for lf, v in leaves:
                    if not feasible(lf):
                        continue
                    ok, why = check_leaf(f, lf, v)
                    if not ok:
                        bad = why
                        break
                if bad:
                    rep.violates("C15.sign", f, "instantiation", scenario=sc, where=d.where(fn), detail=bad)
                else:
                    rep.holds("C15.sign", f, "instantiation", scenario=sc, where=d.where(fn),
                              detail="%d path leaves" % len(leaves), nontrivial=len(leaves) > 1 or a != b)
    # constexpr witnesses
    w = WitnessTU('#include "xtl/xcompare.hpp"\n#include <limits>\n')
    pairs = list(itertools.product(names, repeat=2)) if tier == "thorough" else \
        [(a, b) for a in names for b in names if TINFO[a][0] != TINFO[b][0] or a == b]
    for a, b in pairs:
        la, ha = trange(a)
        lb, hb = trange(b)
        for x in sorted({la, -1 if la < 0 else 0, 0, 1, ha}):
            for y in sorted({lb, -1 if lb < 0 else 0, 0, 1, hb}):
                for f in FUNCS:
                    truth = {"==": x == y, "!=": x != y, "<": x < y, ">": x > y, "<=": x <= y, ">=": x >= y}[SPEC[f]]
                    lit = lambda t, v: ("std::numeric_limits<%s>::min()" % t if v == trange(t)[0] and v != 0 else
                                        "std::numeric_limits<%s>::max()" % t if v == trange(t)[1] else "static_cast<%s>(%d)" % (t, v))
                    w.must_hold("xtl::%s(%s, %s) == %s" % (f, lit(a, x), lit(b, y), "true" if truth else "false"),
                                "C15.constexpr", f, "constant expression", "<%s, %s>(%d, %d)" % (a, b, x, y))
    w.run(rep)
    return rep
