"""Tiny linear-arithmetic layer over ir.sx terms: linear forms, boolean structure of guards (NNF/DNF), and entailment
by non-negative combination of facts.  Used for bounds obligations (C16 span, C02/C03 guards)."""
from . import ir


class Lin(dict):
    """symbol -> coefficient; '' -> constant"""
    def __add__(self, o):
        r = Lin(self)
        for k, v in o.items():
            r[k] = r.get(k, 0) + v
        return Lin({k: v for k, v in r.items() if v != 0})

    def __neg__(self):
        return Lin({k: -v for k, v in self.items()})

    def __sub__(self, o):
        return self + (-o)

    def const(self):
        return self.get("", 0)

    def show(self):
        parts = []
        for k in sorted(self):
            v = self[k]
            if k == "":
                parts.append(str(v))
            else:
                parts.append(("%s" % k) if v == 1 else ("-%s" % k) if v == -1 else "%d*%s" % (v, k))
        return " + ".join(parts).replace("+ -", "- ") if parts else "0"


def lin(t, symmap):
    """sx term -> Lin or None.  symmap(term) -> symbol name or None decides what counts as an atom."""
    k = t[0]
    s = symmap(t)
    if s is not None:
        return Lin({s: 1})
    if k == "lit":
        try:
            return Lin({"": int(str(t[1]))}) if int(str(t[1])) != 0 else Lin()
        except ValueError:
            return None
    if k == "cast":
        return lin(t[3], symmap)
    if k == "bin" and t[1] in ("+", "-"):
        a = lin(t[2], symmap)
        b = lin(t[3], symmap)
        if a is None or b is None:
            return None
        return a + b if t[1] == "+" else a - b
    if k == "un" and t[1] == "-":
        a = lin(t[2], symmap)
        return -a if a is not None else None
    if k == "un" and t[1] == "+":
        return lin(t[2], symmap)
    return None


# ---- boolean structure ---------------------------------------------------------------------------------------------
NEG = {"<": ">=", "<=": ">", ">": "<=", ">=": "<", "==": "!=", "!=": "=="}


def nnf(t, positive=True):
    """sx boolean term -> nested ('and'|'or', [..]) / ('atom', op, lhs, rhs) / ('bool', v) / ('opaque', term, positive)"""
    k = t[0]
    if k == "cast":
        return nnf(t[3], positive)
    if k == "bin" and t[1] in ("&&", "||"):
        a = nnf(t[2], positive)
        b = nnf(t[3], positive)
        conj = (t[1] == "&&") == positive
        return ("and" if conj else "or", [a, b])
    if k == "un" and t[1] == "!":
        return nnf(t[2], not positive)
    if k == "bin" and t[1] in NEG:
        op = t[1] if positive else NEG[t[1]]
        return ("atom", op, t[2], t[3])
    if k == "lit" and t[1] in ("true", "false"):
        return ("bool", (t[1] == "true") == positive)
    return ("opaque", t, positive)


def dnf(f):
    """-> list of conjunctions (lists of leaves, in left-to-right order)"""
    if f[0] == "and":
        out = [[]]
        for c in f[1]:
            cd = dnf(c)
            out = [x + y for x in out for y in cd]
        return out
    if f[0] == "or":
        out = []
        for c in f[1]:
            out += dnf(c)
        return out
    return [[f]]


def atom_facts(op, l, r):
    """atom `l op r` over integers -> list of Lin forms each meaning form >= 0 (None if not expressible, [] if no info)"""
    d = l - r
    if op == "<=":
        return [-d]
    if op == "<":
        return [-d + Lin({"": -1})]
    if op == ">=":
        return [d]
    if op == ">":
        return [d + Lin({"": -1})]
    if op == "==":
        return [d, -d]
    return []          # != carries no linear information


def entails(facts, goal, nonneg=()):
    """goal >= 0 follows from facts (each >= 0) and v >= 0 for v in nonneg, by a 0/1 combination of facts."""
    n = len(facts)
    for mask in range(1 << n):
        rest = Lin(goal)
        for i in range(n):
            if mask >> i & 1:
                rest = rest - facts[i]
        ok = True
        for k, v in rest.items():
            if k == "":
                if v < 0:
                    ok = False
            elif v < 0 or k not in nonneg:
                if v != 0:
                    ok = False
            if not ok:
                break
        if ok:
            return True
    return False
