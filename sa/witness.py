"""Generated translation units of static_assert / must-compile / must-not-compile witnesses.

All witnesses of a unit are compiled in ONE -fsyntax-only run with the error limit off; each witness occupies
exactly one source line, so every diagnostic maps back to its case by line number.
"""
import re
import os
from . import clangjson as cj


class WitnessTU:
    def __init__(self, prelude):
        self.lines = prelude.rstrip("\n").split("\n")
        self.cases = {}          # line number (1-based) -> (kind, rule, function, construct, scenario)

    def _add(self, kind, code, rule, function, construct, scenario):
        assert "\n" not in code
        self.lines.append(code)
        self.cases[len(self.lines)] = (kind, rule, function, construct, scenario)

    def must_hold(self, cond, rule, function, construct, scenario=""):
        self._add("assert", 'static_assert(%s, "w");' % cond, rule, function, construct, scenario)

    def same(self, a, b, rule, function, construct, scenario=""):
        self._add("assert", 'static_assert(std::is_same<%s, %s>::value, "w");' % (a, b), rule, function, construct, scenario)

    def must_compile(self, code, rule, function, construct, scenario=""):
        self._add("compile", code, rule, function, construct, scenario)

    def must_not_compile(self, code, rule, function, construct, scenario=""):
        self._add("reject", code, rule, function, construct, scenario)

    def raw(self, code):
        for l in code.rstrip("\n").split("\n"):
            self.lines.append(l)

    def text(self):
        return "\n".join(self.lines) + "\n"

    def run(self, rep, std="gnu++17", compiler="clang++", defines=(), extra=()):
        """Compile; record one instance per case into rep. Returns (ok_count, bad_count)."""
        rc, err, cmd = cj.compile_only(self.text(), std=std, compiler=compiler, defines=defines, extra=extra)
        rep.cmd(cmd + " <generated witness TU>")
        errs = {}
        other = []
        for m in re.finditer(r"^<gen>:(\d+):\d+: (?:fatal )?error: (.*)$", err, re.M):
            ln = int(m.group(1))
            if ln in self.cases:
                errs.setdefault(ln, m.group(2))
            # an error on a prelude line (a helper template of the witness TU) is attributed below, through its instantiation notes
        # errors reported inside repo headers while instantiating a witness: attribute them through the instantiation
        # context (clang: following "note: in instantiation ... <gen>:N"; gcc: preceding "<gen>:N:M:   required from here")
        lines = err.splitlines()
        pending_ctx = None
        idx = 0
        while idx < len(lines):
            ln_txt = lines[idx]
            m = re.match(r"<gen>:(\d+):\d+:\s+required from here", ln_txt)
            if m and int(m.group(1)) in self.cases:
                pending_ctx = int(m.group(1))
            m = re.match(r"(\S+?):(\d+):(?:\d+:)? (?:fatal )?error: (.*)", ln_txt)
            if m and (m.group(1) != "<gen>" or int(m.group(2)) not in self.cases):
                hit = pending_ctx
                j2 = idx + 1
                while j2 < len(lines) and not re.match(r"\S+?:\d+:(?:\d+:)? (?:fatal )?error: ", lines[j2]):
                    m2 = re.match(r"<gen>:(\d+):\d+: note:", lines[j2])
                    if m2 and int(m2.group(1)) in self.cases:
                        hit = int(m2.group(1))
                    m3 = re.match(r"<gen>:(\d+):\d+:\s+required from here", lines[j2])
                    if m3:
                        break
                    j2 += 1
                if hit is not None:
                    errs.setdefault(hit, "%s:%s: %s" % (m.group(1), m.group(2), m.group(3)))
                elif m.group(1) == "<gen>":
                    ln0 = int(m.group(2))
                    other.append("line %d: %s | %s" % (ln0, m.group(3), self.lines[ln0 - 1][:120] if ln0 <= len(self.lines) else ""))
                else:
                    other.append("%s:%s: %s" % (m.group(1), m.group(2), m.group(3)))
                pending_ctx = None
            idx += 1
        if other:
            rep.broke("witness TU has errors outside any witness line: " + " || ".join(other[:5]))
        ok = bad = 0
        for ln, (kind, rule, function, construct, scenario) in sorted(self.cases.items()):
            failed = ln in errs
            code = self.lines[ln - 1].strip()
            if kind == "reject":
                if failed:
                    rep.holds(rule, function, construct, scenario=scenario, detail="rejected by the compiler: " + errs[ln][:100])
                    ok += 1
                else:
                    rep.violates(rule, function, construct, scenario=scenario, where="generated witness",
                                 detail="this must be ill-formed but compiles: `%s`" % code[:300])
                    bad += 1
            else:
                if failed:
                    rep.violates(rule, function, construct, scenario=scenario, where="generated witness",
                                 detail="`%s` fails: %s" % (code[:400], errs[ln][:300]))
                    bad += 1
                else:
                    rep.holds(rule, function, construct, scenario=scenario)
                    ok += 1
        return ok, bad
