#include "xtl/xdynamic_bitset.hpp"
#include <stdexcept>
int main(){ int bad = 0;
 xtl::xdynamic_bitset<std::uint64_t> b(10, true);
 try { (void)bool(b.at(10)); bad++; } catch (const std::out_of_range&) {}
 try { (void)bool(b.at(63)); bad++; } catch (const std::out_of_range&) {}
 try { (void)bool(b.at(9)); } catch (const std::out_of_range&) { bad++; }
 const auto& cb = b; try { (void)bool(cb.at(12)); bad++; } catch (const std::out_of_range&) {}
 xtl::xdynamic_bitset<std::uint8_t> e; bad += e.count() != 0;   // &m_buffer[0] on an empty vector (UB; asserts with _GLIBCXX_ASSERTIONS)
 return bad; }
