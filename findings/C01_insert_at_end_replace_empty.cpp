#include "xtl/xbasic_fixed_string.hpp"
#include <string>
int main(){ int bad=0;
 { xtl::xfixed_string<16> a("abc"); std::string s("abc"); a.insert(a.cend(), 2, 'x'); s.insert(s.cend(), 2, 'x'); bad += s != a.c_str(); }
 { xtl::xfixed_string<16> a("abc"); std::string s("abc"), t("yz"); a.insert(a.cend(), t.begin(), t.end()); s.insert(s.cend(), t.begin(), t.end()); bad += s != a.c_str(); }
 { xtl::xfixed_string<16> a("abc"); std::string s("abc"); a.replace(a.cbegin()+1, a.cbegin()+1, "QQ", 2); s.replace(s.cbegin()+1, s.cbegin()+1, "QQ", 2); bad += s != a.c_str(); }
 { xtl::xfixed_string<16> a("abc"); std::string s("abc"); a.replace(a.cbegin()+1, a.cbegin()+1, 3, 'k'); s.replace(s.cbegin()+1, s.cbegin()+1, 3, 'k'); bad += s != a.c_str(); }
 { xtl::xfixed_string<16> a("abc"); std::string s("abc"), t("yz"); a.replace(a.cend(), a.cend(), t.begin(), t.end()); s.replace(s.cend(), s.cend(), t.begin(), t.end()); bad += s != a.c_str(); }
 return bad; }
