// g++ -std=c++14 -I/repo/include findings/C11_array_iterators.cpp -o /tmp/c11_array_iterators && /tmp/c11_array_iterators
// C11: element i read through forward, const and reverse iterators of xoptional_array / xcomplex_array is the pair (values[i], flags[i]) resp. (real[i], imag[i]).
// Before the fix this file did not compile: xoptional_iterator_traits / xcomplex_iterator_traits asked the storage iterators for nested typedefs
// (ITV::value_type, ...), and the iterators of std::array are raw pointers - no iterator of the two array containers could be instantiated.
#include "xtl/xoptional_sequence.hpp"
#include "xtl/xcomplex_sequence.hpp"
#include <cstdio>

int main()
{
    int bad = 0;
    xtl::xcomplex_array<double, 3> a;
    a[0] = xtl::xcomplex<double>(1, 2); a[1] = xtl::xcomplex<double>(3, 4); a[2] = xtl::xcomplex<double>(5, 6);
    int n = 0; double sr = 0, si = 0;
    for (auto it = a.cbegin(); it != a.cend(); ++it) { ++n; sr += (*it).real(); si += (*it).imag(); }
    bad += !(n == 3 && sr == 9 && si == 12);
    for (auto it = a.begin(); it != a.end(); ++it) { *it = xtl::xcomplex<double>((*it).real() * 2, (*it).imag()); }
    bad += !(a[1].real() == 6 && a[1].imag() == 4);
    double rr = 0; for (auto it = a.rbegin(); it != a.rend(); ++it) { rr = rr * 100 + (*it).real(); }
    bad += !(rr == 100602);
    bad += !(a.end() - a.begin() == 3 && a.begin()[2].imag() == 6);

    xtl::xoptional_array<double, 3> o;
    o[0] = 1.5; o[2] = 2.5;
    int present = 0, seen = 0; double sum = 0;
    for (auto it = o.cbegin(); it != o.cend(); ++it) { ++seen; if ((*it).has_value()) { ++present; sum += (*it).value(); } }
    bad += !(seen == 3 && present == 2 && sum == 4.0);
    for (auto it = o.begin(); it != o.end(); ++it) { if (!(*it).has_value()) { *it = 7.0; } }
    bad += !(o[1].has_value() && o[1].value() == 7.0);
    int r = 0; for (auto it = o.rbegin(); it != o.rend(); ++it) { r = r * 10 + int((*it).value()); }
    bad += !(r == 271);
    std::printf(bad ? "FAIL (%d)\n" : "ok\n", bad);
    return bad ? 1 : 0;
}
