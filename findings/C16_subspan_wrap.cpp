#define TCB_SPAN_THROW_ON_CONTRACT_VIOLATION
#include "xtl/xspan.hpp"
#include <cstdint>
int main(){ int a[4] = {1,2,3,4}; xtl::span<int> s(a, 4); int bad = 0;
  try { auto v = s.subspan(2, SIZE_MAX - 1); (void)v; bad++; } catch (const std::logic_error&) {}
  try { auto v = s.subspan(3, SIZE_MAX - 2); (void)v; bad++; } catch (const std::logic_error&) {}
  try { auto v = s.subspan(1, 3); bad += v.size() != 3; } catch (const std::logic_error&) { bad++; }
  try { auto v = s.subspan(4, 0); bad += v.size() != 0; } catch (const std::logic_error&) { bad++; }
  try { auto v = s.subspan(1, 4); (void)v; bad++; } catch (const std::logic_error&) {}
  return bad; }
