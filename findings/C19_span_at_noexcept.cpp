// build with -fno-exceptions -DNDEBUG (release: contract checks off): at(7) on a 4-element span must end the process
#include "xtl/xspan.hpp"
#include <cstdlib>
#include <exception>
int main(){ std::set_terminate([]{ std::_Exit(0); }); int a[4] = {1,2,3,4}; xtl::span<int> s(a, 4); volatile int x = s.at(7); (void)x; return 1; }
