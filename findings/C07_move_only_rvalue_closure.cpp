// build: g++ -std=c++17 -fsyntax-only -I<repo>/include   (g++ 12, C++14/17: does not compile before the fix)
// An rvalue closure must own its value; for a move-only payload that means moving the temporary in.
#include "xtl/xclosure.hpp"
struct MoveOnly { int v = 0; MoveOnly() = default; MoveOnly(MoveOnly&&) = default; MoveOnly& operator=(MoveOnly&&) = default; MoveOnly(const MoveOnly&) = delete; };
int main() { auto c = xtl::closure(MoveOnly()); c.get().v = 1; return c.get().v - 1; }
