#include "xtl/xbasic_fixed_string.hpp"
#include <string>
#include <sstream>
int main(){ xtl::xfixed_string<16> a("ab\0cd", 5); std::string s("ab\0cd", 5); int bad = 0;
 std::string conv = a; bad += conv != s;
 std::ostringstream o1, o2; o1 << a; o2 << s; bad += o1.str() != o2.str();
 return bad; }
