// build: g++ -std=c++17 -fsanitize=alignment -fno-sanitize-recover=alignment -I<repo>/include C14_misaligned_block_load.cpp
// murmur2_x86 must not depend on the buffer's alignment; reading blocks through a uint32_t* from an odd address is
// undefined behaviour (UBSan: "load of misaligned address") and traps on alignment-strict targets.
#include "xtl/xhash.hpp"
#include <cstring>
int main(){ alignas(8) unsigned char buf[32]; for (int i = 0; i < 32; ++i) buf[i] = (unsigned char)(i * 37);
  unsigned char copy[12]; std::memcpy(copy, buf + 1, 12);
  alignas(8) unsigned char aligned[16]; std::memcpy(aligned, copy, 12);
  return xtl::murmur2_x86(buf + 1, 12, 7u) == xtl::murmur2_x86(aligned, 12, 7u) ? 0 : 1; }
