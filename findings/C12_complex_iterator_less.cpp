#include "xtl/xcomplex_sequence.hpp"
int main(){ xtl::xcomplex_vector<double> v(3); auto b = v.begin(), e = v.end();
 return !((b < e) && (b <= e) && (e > b) && (e >= b) && !(e < b) && !(b < b) && (b <= b)); }
