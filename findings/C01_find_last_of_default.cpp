#include "xtl/xbasic_fixed_string.hpp"
#include <string>
int main(){ xtl::xfixed_string<16> a("abcabc"); std::string s("abcabc");
 return !(a.find_last_of("c") == s.find_last_of("c") && a.find_last_of('b') == s.find_last_of('b') && a.find_last_of(std::string("a")) == s.find_last_of("a") && a.find_last_of(xtl::xfixed_string<16>("c")) == 5); }
