#!/bin/sh
# usage: C20_long_executable_path.sh <repo>; exit 0 if executable_path() is right for an install path of ~1500 bytes
set -e
R=${1:-/repo}; W=$(mktemp -d /tmp/c20.XXXXXX); trap 'rm -rf "$W"' EXIT
cat > $W/p.cpp <<'EOC'
#include "xtl/xsystem.hpp"
#include <iostream>
int main(int, char** argv){ std::string p = xtl::executable_path(); std::cout << p.size() << "\n"; return p == argv[1] ? 0 : 1; }
EOC
g++ -std=c++17 -I$R/include $W/p.cpp -o $W/p
D=$W; for i in 1 2 3 4 5 6; do D=$D/$(printf 'd%0240d' $i); done; mkdir -p "$D/bin"; cp $W/p "$D/bin/prog"
cd "$D/bin" && ./prog "$D/bin/prog"
