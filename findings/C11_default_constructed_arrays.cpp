#include "xtl/xoptional_sequence.hpp"
#include "xtl/xcomplex_sequence.hpp"
#include <new>
#include <cstring>
int main(){ int bad = 0;
  xtl::xoptional_array<int, 3> a;            // 3 values but 0 flags before the fix
  bad += a.has_value().size() != a.size();
  bad += a.size() != 3;
  if (a.has_value().size() == 3) { for (std::size_t i = 0; i < 3; ++i) bad += a[i].has_value(); }
  alignas(xtl::xcomplex_array<double, 3>) unsigned char raw[sizeof(xtl::xcomplex_array<double, 3>)];
  std::memset(raw, 0xAB, sizeof raw);
  auto* c = new (raw) xtl::xcomplex_array<double, 3>;   // default-initialisation
  for (std::size_t i = 0; i < 3; ++i) bad += !((*c)[i].real() == 0. && (*c)[i].imag() == 0.);
  return bad; }
