// C99 Annex G: (1 + 1i) * (NaN + inf i) is an infinity.
#include "xtl/xcomplex.hpp"
#include <cmath>
#include <limits>
int main(){ double inf = std::numeric_limits<double>::infinity(), nan = std::numeric_limits<double>::quiet_NaN();
  xtl::xcomplex<double, double, true> a(1., 1.), b(nan, inf);
  auto r = a * b; return !(std::isinf(r.real()) || std::isinf(r.imag())); }
