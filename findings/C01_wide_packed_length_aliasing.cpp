// g++ -std=c++17 -O2 -I/repo/include findings/C01_wide_packed_length_aliasing.cpp -o /tmp/alias_demo && /tmp/alias_demo   (fails on the parent of the fix commit with g++ -O2/-O3, passes with -O0, -fno-strict-aliasing, and after the fix)
#define NDEBUG 1  // keep the library's assert(sz < N) from aborting before the mismatch is reported
#include <xtl/xbasic_fixed_string.hpp>
#include <cstdio>
#include <string>

using S = xtl::xbasic_fixed_string<wchar_t, 300>;  // 301 wchar_t, length packed into the last element
static int bad = 0;
volatile std::size_t rounds = 4;

__attribute__((noinline)) static void check(const S& u, const std::wstring& ref, const char* what)
{
    if (u.size() != ref.size() || std::wstring(u.data(), u.size()) != ref)
    {
        std::printf("%s: size() = %zu, std::wstring size() = %zu\n", what, u.size(), ref.size());
        ++bad;
    }
}

// fill the dead stack below with words that decode to a small, harmless length (300 - 290 = 10)
__attribute__((noinline)) static void paint_stack()
{
    volatile unsigned words[16384];
    for (unsigned i = 0; i < 16384; ++i) words[i] = 290;
}

__attribute__((noinline)) static void run()
{
    static S s;
    std::wstring r;
    for (std::size_t it = 0; it < rounds; ++it)
    {
        const wchar_t ch = wchar_t(L'a' + it);
        S u;
        u = s + ch;    check(u, r + ch, "s + ch");
        u = ch + s;    check(u, ch + r, "ch + s");
        u = S(s) + ch; check(u, std::wstring(r) + ch, "S(s) + ch");
        u = ch + S(s); check(u, ch + std::wstring(r), "ch + S(s)");
        s.push_back(ch); r.push_back(ch);
    }
}

int main()
{
    paint_stack();
    run();
    return bad != 0;
}
