// g++ -std=c++14 -I/repo/include C01_wide_char_store_size.cpp && ./a.out   (does not compile on the parent of the fix commit; prints PASS with it)
#include "xtl/xbasic_fixed_string.hpp"
#include <cstdio>
int main() {
    int bad = 0;
    xtl::xwfixed_string<16> w(L"ab"); w.push_back(L'c'); w.insert(1, L"ZZ");
    if (!(w.size() == 5 && w == L"aZZbc" && w.c_str()[5] == 0)) { std::puts("FAIL wchar_t"); bad = 1; }
    xtl::xu32fixed_string<4> u(U"abcd");
    if (!(u.size() == 4 && u.c_str()[4] == 0)) { std::puts("FAIL char32_t full"); bad = 1; }
    xtl::xu16fixed_string<16> h(u"xy"); h += u"z";
    if (!(h.size() == 3)) { std::puts("FAIL char16_t"); bad = 1; }
    xtl::xfixed_string<255> c255; xtl::xfixed_string<256> c256("q");
    if (!(c255.size() == 0 && c256.size() == 1 && sizeof(c256) > 257 && sizeof(c255) == 256)) { std::puts("FAIL char thresholds"); bad = 1; }
    if (!bad) std::puts("PASS");
    return bad;
}
