#include "xtl/xbasic_fixed_string.hpp"
#include <cstdio>
int main(){ xtl::xfixed_string<4> a("abcd"); xtl::xfixed_string<255> b; xtl::xfixed_string<4> c("abc"); c.push_back('d');
 std::printf("%zu %zu %zu %s\n", a.size(), b.size(), c.size(), c.c_str()); return !(a.size()==4 && b.size()==0 && c.size()==4); }
