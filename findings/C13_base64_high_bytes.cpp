// bytes >= 0x80 in the input index the 256-entry table with size_t(negative char) (far out of bounds).
// Build with -fsanitize=address,undefined or -D_GLIBCXX_ASSERTIONS to see it; the result must be "hi".
#include "xtl/xbase64.hpp"
int main(){ std::string in = "aGk"; in.push_back(char(0xE9)); in += "AAAA"; return xtl::base64decode(in) != "hi"; }
