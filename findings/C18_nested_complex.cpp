#include "xtl/xtype_traits.hpp"
static_assert(std::is_same<xtl::promote_type_t<std::complex<float>, std::complex<double>, std::complex<float>>, std::complex<double>>::value, "nested complex");
int main(){}
