// Self-swap of an any holding an in-place (small, nothrow-movable) value: vtable_stack::swap(s, s) move-constructs
// an object from storage whose object has already been destroyed.
#include "xtl/xany.hpp"
#include <set>
static std::set<const void*> live; static int bad = 0;
struct T { int v; explicit T(int x) : v(x) { live.insert(this); }
  T(const T& o) : v(o.v) { if (!live.count(&o)) bad++; live.insert(this); }
  T(T&& o) noexcept : v(o.v) { if (!live.count(&o)) bad++; live.insert(this); }
  ~T() { live.erase(this); } };
int main(){ { xtl::any a{T(7)}; a.swap(a); bad += xtl::any_cast<T&>(a).v != 7; } bad += !live.empty(); return bad; }
