// g++ -std=c++14 -I/repo/include C16_span_first_zero.cpp && ./a.out   (does not compile with g++ on the parent of the fix commit; exits 0 with it)
#include "xtl/xspan.hpp"
#include <array>
int main() {
    int a[4] = {1, 2, 3, 4};
    xtl::span<int> s(a, 4);
    xtl::span<int, 4> fs(a);
    int bad = 0;
    bad += s.first<0>().size() != 0;
    bad += s.last<0>().size() != 0;
    bad += fs.first<0>().size() != 0;
    bad += fs.last<0>().size() != 0;
    bad += s.subspan<0, 0>().size() != 0;
    bad += s.subspan<4, 0>().size() != 0;
    bad += fs.subspan<4>().size() != 0;
    bad += fs.subspan<2, 0>().size() != 0;
    bad += s.subspan<1, 2>().size() != 2 || s.subspan<1, 2>()[0] != 2;
    bad += s.first(0).size() != 0 || s.last(0).size() != 0 || s.subspan(4, 0).size() != 0;
    return bad;
}
