// numpy-compatible (strlen-sized) layout: length is recomputed from the bytes, so reading size()/end()
// between publishing the new terminator and filling the gap gives the OLD length.
#include "xtl/xbasic_fixed_string.hpp"
#include <string>
#include <cstring>
using S = xtl::xbasic_fixed_string<char, 16, xtl::buffer>;
int main(){
  int bad = 0;
  { S a("abc"); a.insert(1, "ZZ"); bad += std::string(a.c_str()) != "aZZbc"; }
  { S a("abc"); a.insert(1, 2, 'Q'); bad += std::string(a.c_str()) != "aQQbc"; }
  { S a("abc"); a.resize(5, 'x'); bad += std::string(a.c_str()) != "abcxx"; }
  { S a("abcdefgh"); a.assign("ab"); /* stale bytes: a b \0 d e f g h \0 */ a.push_back('Z'); bad += std::string(a.c_str()) != "abZ"; }
  return bad;
}
