#include "xtl/xbasic_fixed_string.hpp"
#include <string>
#include <stdexcept>
using S = xtl::xbasic_fixed_string<char, 16, xtl::buffer | xtl::store_size, xtl::string_policy::throwing_error>;
int main(){ S a("keep"); std::string src("abc"); int bad = 0;
 try { a.assign(src, 5, 2); bad++; } catch (const std::out_of_range&) {}
 bad += std::string(a.c_str()) != "keep";
 try { S b(src, 7, 1); bad++; } catch (const std::out_of_range&) {}
 return bad; }
