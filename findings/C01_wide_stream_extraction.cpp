// g++ -std=c++14 -I/repo/include C01_wide_stream_extraction.cpp && ./a.out   (does not compile on the parent of the fix commit; prints PASS with it)
#include "xtl/xbasic_fixed_string.hpp"
#include <cstdio>
#include <sstream>
int main() {
    int bad = 0;
    std::wistringstream in(L"hello world\nsecond line");
    xtl::xwfixed_string<16> w;
    in >> w;
    if (!(w == L"hello")) { std::puts("FAIL operator>> (wchar_t)"); bad = 1; }
    xtl::getline(in, w);
    if (!(w == L" world")) { std::puts("FAIL getline (wchar_t)"); bad = 1; }
    xtl::getline(in, w, L'l');
    if (!(w == L"second ")) { std::puts("FAIL getline with delimiter (wchar_t)"); bad = 1; }
    std::istringstream in8("abc def");
    xtl::xfixed_string<16> c;
    in8 >> c;
    if (!(c == "abc")) { std::puts("FAIL operator>> (char)"); bad = 1; }
    if (!bad) std::puts("PASS");
    return bad;
}
