// Compound/plain assignment between xcomplex specialisations with different closure kinds, and IEEE /= on a
// reference closure: must compile (C10: "value or reference closures, any combination of operand kinds").
#include "xtl/xcomplex.hpp"
int main(){ double r = 1, i = 2; int bad = 0;
  xtl::xcomplex<double&, double&> ref(r, i);
  xtl::xcomplex<double, double> val(3., 4.);
#ifdef PART_ASSIGN
  ref = val; bad += !(r == 3. && i == 4.);
#endif
#ifdef PART_COMPOUND
  ref += val; ref -= val; ref *= val; ref /= val;
  val += ref;
#endif
#ifdef PART_IEEE_DIV
  double r2 = 8, i2 = 6; xtl::xcomplex<double&, double&, true> iref(r2, i2); xtl::xcomplex<double&, double&, true> iref2(r, i);
  iref /= iref2;
#endif
  return bad; }
