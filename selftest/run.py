#!/usr/bin/env python3
"""Self-test of the checkers, both ways, on scratch copies of /repo (never on /repo itself).

  selftest/run.py [Cxx ...] [--jobs N] [--only NAME]

Every entry of selftest/mutants.json is a one-site textual change to a header:
  {"property","name","file","old","new","expect": "violation"|"silent", "rule": "<rule id that must be named>", "why"}
`expect: violation` entries are realistic breakages the named rule must report (exit 1, rule id in the output);
`expect: silent` entries are behaviour-preserving rewrites on which the check must stay at exit 0.
The scratch copy lives under $TMPDIR (default /tmp) and is removed after each entry.
"""
import json, os, shutil, subprocess, sys, tempfile
from concurrent.futures import ThreadPoolExecutor
HERE = os.path.dirname(os.path.abspath(__file__))
VERIF = os.path.dirname(HERE)
REPO = os.environ.get("XTL_REPO_ORIG", "/repo")


def run_one(m):
    tmp = tempfile.mkdtemp(prefix="selftest.", dir=os.environ.get("TMPDIR", "/tmp"))
    try:
        subprocess.run(["rsync", "-a", "--exclude", "_build", "--exclude", ".git", "--exclude", "_b", REPO + "/", tmp + "/"], check=True)
        path = os.path.join(tmp, m["file"])
        src = open(path).read()
        cnt = src.count(m["old"])
        if cnt < 1 or (cnt != 1 and not m.get("all")):
            return m, "STALE", "pattern occurs %d times in %s" % (cnt, m["file"])
        src = src.replace(m["old"], m["new"]) if m.get("all") else src.replace(m["old"], m["new"], 1)
        open(path, "w").write(src)
        env = dict(os.environ, XTL_REPO=tmp, VERIF_EVIDENCE_DIR=os.path.join(tmp, "_evidence"))
        p = subprocess.run([os.path.join(VERIF, "check"), m["property"], "--tier", m.get("tier", "quick")], stdout=subprocess.PIPE, stderr=subprocess.STDOUT, env=env, cwd=VERIF)
        out = p.stdout.decode("utf-8", "replace")
        if m["expect"] == "violation":
            named = ("rule " + m["rule"]) in out if m.get("rule") else True
            ok = p.returncode == 1 and named
        else:
            ok = p.returncode == 0
        return m, "OK" if ok else "FAIL", "exit=%d%s\n%s" % (p.returncode, "" if ok else " (expected %s %s)" % (m["expect"], m.get("rule", "")), "" if ok else "\n".join(l for l in out.splitlines() if not l.startswith("    rule:"))[-1500:])
    finally:
        shutil.rmtree(tmp, ignore_errors=True)


def main():
    args = sys.argv[1:]
    jobs = 8
    only = None
    props = []
    i = 0
    while i < len(args):
        if args[i] == "--jobs":
            jobs = int(args[i + 1]); i += 2
        elif args[i] == "--only":
            only = args[i + 1]; i += 2
        else:
            props.append(args[i]); i += 1
    ms = json.load(open(os.path.join(HERE, "mutants.json")))
    ms = [m for m in ms if (not props or m["property"] in props) and (only is None or m["name"] == only)]
    bad = 0
    with ThreadPoolExecutor(jobs) as ex:
        for m, verdict, info in ex.map(run_one, ms):
            print("%-5s %s %-40s expect=%-9s %s" % (verdict, m["property"], m["name"], m["expect"], info.split("\n")[0]))
            if verdict != "OK":
                bad += 1
                print(info)
    print("%d entries, %d not as expected" % (len(ms), bad))
    return 1 if bad else 0


if __name__ == "__main__":
    sys.exit(main())
