#!/usr/bin/env python3
"""Regenerates MANIFEST.json from the table below (keeps it schema-valid at all times)."""
import json, os, sys
HERE = os.path.dirname(os.path.dirname(os.path.abspath(__file__)))

CHECKS = {
 "C01": dict(level="other", design="4.1",
   technique="exact constant folding of the three length encodings over every length 0..N (incl. N=1, 255, 256), path-sensitive length typestate of every mutator, default-argument table agreement, position-ordering enumeration of the iterator guards, sink rule for own-length rescans, 3-way truth tables of the 30 relational overloads and compare_impl, object-agreement / published-equals-checked rules, cursor-window invariant of the search loops",
   text="Structural necessary conditions only; equivalence with std::basic_string over operation histories is NOT decided. For each storage layout and capacity (packed N=1/16/255, size-field N=256, "
        "strlen N=16; thorough adds wchar_t/char16_t) the stores of set_size/adjust_size are folded for every length 0..N and size() must decode it with NUL at data()[size()], which covers the length "
        "byte doubling as terminator at full capacity; no derived-length read follows a possibly growing publication or terminator overwrite in any mutator; every defaulted parameter of the member "
        "declarations equals [basic.string]'s; iterator insert/erase/replace mutate for every ordering of valid positions incl. end() and empty ranges; conversions to std::string/streams pass "
        "(data(), size()); the 30 relational overloads and compare_impl realise the 3-way ordering; clamps and offsets use the object the position was validated against; the published length is "
        "the checked one; cursor + remaining count is invariant in the find loops; traits compare/find over the own buffer end at or before size(); forwarding overloads call their own worker with every parameter; the storage classes instantiated for wchar_t/char16_t/char32_t/char access the buffer only through its own element type (no reinterpretation as another non-character type). The sign table of compare_impl covers ranges that start at the same address; a shrinking publication adjust_size(-k) has k capped by the current size. empty() is size() == 0 in one of its spellings.",
   note="Search results, shifted characters, copy/substr counts and stream extraction are not decided; trusts sa/ceval.py, sa/flow.py and the default-argument table transcribed from [basic.string]."),
 "C02": dict(level="other", design="4.2",
   technique="checks-before-effects path rule with a may-throw summary over the member call graph, guard-dominance (same-object) rule for position offsets and size subtractions by linear entailment, published-equals-checked rule, derived-length-after-publication typestate, symbolic summaries of the checking functions (paths through helpers to return/throw, contract by entailment), write/read extents by linear entailment with loops decided by an exact two-iteration pass plus an induction pass over inferred invariants",
   text="Structural necessary conditions on every instantiated member with the throwing policy (packed and strlen layouts; thorough adds size-field and wchar_t), all paths: no capacity check, position "
        "check or call to a member that may throw is evaluated after the first length publication or character write of the body; every position parameter offset into X or subtracted from X.size() is "
        "dominated by check_index[_strict] against the same X or a branch entailing pos <= X.size(); every published length is exactly a policy-check result, a same-capacity size or 0, adjust_size only "
        "shrinks; no offset is computed from a re-derived length after a growing publication; every character write's destination range is proven inside [0,N] by linear arithmetic from the checks on its path, for every iteration of a loop by induction (candidate invariants assumed at the head and re-established at the back edge) and for the first two iterations exactly; check_size throws length_error exactly for size > N, check_add for size1+size2 > N, check_index out_of_range exactly for pos >= size, "
        "check_index_strict exactly for pos > size, at() returns exactly for pos < size() - each decided on a symbolic summary of the function through its helpers; the storage array has N+1 elements; reads of the own buffer in the search/compare family end at or before size(). Read extents, source/destination aliasing and the silent policy are NOT decided. A shrinking publication adjust_size(-k) has k capped by the current size (parameters of non-public workers judged at their call sites); size() decodes what set_size/adjust_size encode for every layout and length (C02.enc). A member that checks a position or a length is not declared noexcept; the getline overloads keep the strong guarantee.",
   note="Trusts the event tables in sa/fstring.py (which calls write characters, which publish a length) and sa/linear.py; iterator parameters are assumed to point into *this."),
 "C05": dict(level="other", design="4.5",
   technique="abstract-variant typestate interpretation of the lifetime machinery over the template patterns (calls followed, visit_alt/visit_alt_at applied to their lambdas, exceptional successors at every element operation, try/catch rollback), relational truth tables against [variant.relops], guard-dominance rules for get/get_if/visit/hash, case-label/alternative agreement of the instantiated dispatch switches",
   text="Decides structural necessary conditions on the template patterns (hence for every alternative set): destroy, generic_construct, emplace, assign_alt (both functor branches), assign, "
        "generic_assign, swap incl. its rollback, copy/move constructors and assignments and the destructor are simulated on abstract variants {valueless, holds alt 0, holds alt 1} with an "
        "exceptional successor at every element construction/assignment/swap/temporary; at every normal and exceptional exit each variant is valueless with no live alternative or holds exactly "
        "the alternative its index names, nothing is constructed over a live alternative or destroyed twice, local variants are destroyed, results carry the requested/source index, and conditional noexcept-specifications require a nothrow trait for every element operation the simulated body can raise from; the "
        "index/valueless primitives, base constructors, construct_alt and the destroy visitor have their defining shape; the six relational operators match [variant.relops] for every "
        "valueless/index-order scenario incl. functor and operand order; get/get_if/visit/hash reach an alternative only under their guard; the 32-way dispatch switches of a 40-alternative "
        "instantiation dispatch the alternative of their label. Element constructors running exactly once inside construct_alt, converting-constructor overload selection and value equality with std::variant are NOT decided. The special members of variant<P, int> exist / are trivial exactly as [variant.ctor]/[variant.assign]/[variant.dtor] require for seven payload kinds, and index 254/255 of 255/256-alternative variants is distinct from valueless (compiler witnesses). swap's noexcept-specification agrees with the swap found by ADL and the moves of the alternatives (witnesses); in a visit of two variants the second variant's switch is entered at block 0. The converting assignment is noexcept only if the alternative is nothrow assignable and nothrow constructible from the argument; get_if takes the address with addressof.",
   note="Trusts the interpreter in sa/rules/c05.py and clang's pattern AST; element destructors are assumed not to throw; only the C++14+ (generic lambda, relaxed constexpr) configuration is visible."),
 "C06": dict(level="other", design="4.6",
   technique="object-identity typestate interpretation of the vtable slot functions (effect summaries per slot, both families) and of every member of any under all presence/type/alias scenarios with exceptional successors; writer/vtable/reader agreement table over 11 payload types; guard-dominance rules for the casts",
   text="Decides structural necessary conditions: the functions stored in each vtable slot (vtable_stack and vtable_dynamic) have the slot's effect summary with every object owned by exactly "
        "one storage and destroyed at most once; every member of any, simulated under {this empty/holds A} x {rhs empty/holds A/holds B/is *this} with calls into its own members, temporaries "
        "and their destructors, and a throw at the copy slot / payload constructor, keeps vtable-null <=> storage-dead and vtable type == stored type at every normal and exceptional exit, never "
        "constructs over a live object nor uses a dead one, has the presence/type postcondition of copy/move/swap/reset/assignment, and leaves *this untouched when an assignment throws; "
        "requires_allocation, construct(), vtable_for_type() (family and slot order) and cast<T>/cast<const T> agree for payloads on both sides of the in-place threshold (size, alignment, "
        "nothrow move); pointer any_cast hands out storage only after the null and typeid(T) tests, reference forms go through check_any_cast. Equality of stored values is NOT decided. An assignment from another any takes the source into a temporary before the old content of *this is destroyed (the content may own the source). Construction and assignment from another any of every constness and value category select the copy/move special members (clang's resolved overloads), never the converting template; the payload is direct-initialised.",
   note="Trusts the interpreters in sa/rules/c06.py and clang's AST; payload constructors/destructors are assumed to do what their names say; type_info identity across shared libraries is out of scope."),
 "C03": dict(level="other", design="4.3",
   technique="path-sensitive typestate (canonical last block) over every instantiated member for 4 block types, exact constant folding of the bit/block helper formulas over all bit offsets, linear bit-displacement/coverage analysis of the shift loops, guard entailment for at()/empty-buffer accesses, size/block-count agreement, folded loop index sets, in-place move order, promotion-decided comparison lint",
   text="Decides structural necessary conditions on every instantiated member of xdynamic_bitset_base/xdynamic_bitset/xdynamic_bitset_view for uint8/16/32/64 blocks: "
        "every normal exit leaves bits >= size() cleared (stores classified preserving/dirtying, zero_unused_bits() is the cleaning event, constructors start from the state "
        "their storage expression establishes); block_index/bit_index/bit_mask/compute_block_count/integer_ceil/count_extra_bits, the unused-bit masks and the bit-reference "
        "mask/primitives equal their defining formulas for every bit offset (folded with clang's recorded promotions/conversions, shift-width UB reported); each block move of "
        "<<= / >>= displaces bits by exactly pos, stays inside [0,last], and moved ranges + zero fill tile the buffer; at() throws out_of_range exactly for i >= size(); "
        "front/back/[0]/[count-1] need a dominating non-emptiness fact; the buffer is sized ceil(size/W) wherever size is set; resize(n,true) patches the old last block; "
        "no block comparison is decided by integer promotion; every loop that subscripts the block buffer visits exactly the blocks of the buffer for every size 0..2W+1 (bounds folded; a separately treated last block keeps every valid bit under its mask); the in-place block moves of the shifts run away from their sources; the popcount table and the bit-reference assignment operators are folded exactly; all rules are repeated on the narrowest block type under the other language levels. Bit values produced by operation histories are NOT decided. An operator== overload of a derived container class is held to the same size rule as the base's.",
   note="Assumes callers respect pos < size() for unchecked single-bit operations and equal sizes for blockwise operators; a restructured shift algorithm is reported as analysis-broken (exit 2), not as a violation; trusts sa/flow.py, sa/ceval.py, sa/linear.py."),
 "C17": dict(level="other", design="4.15",
   technique="abstract execution of INSTANTIATED dispatchers over the calls clang resolved: static_dispatcher for every pair of dynamic types (same and different rhs list, symmetric or not), basic_fast_dispatcher insert/dispatch over the nested table with three levels; path-wise guard-dominance rules for the map lookups, the visitors and resize_container (linear entailment incl. its exit postcondition); policy reachability over the calls clang resolved in instantiations",
   text="Decides structural clauses: static_dispatcher<(A,B,C)[, rhs (C,B)]> ends, for every pair of dynamic types, in exec.run on the two operands cast to exactly those types, swapped exactly when "
        "symmetric and the rhs type precedes the lhs type in its list, and in exec.on_error for a type outside the lists (64 scenarios, overload selection/tag dispatch/helpers followed through the resolved callees); "
        "basic_fast_dispatcher::dispatch calls m_callbacks[idx0][idx1][idx2](args..., udargs...) with idx_k the class index of argument k, subscripting each level only after idx_k < size() was established and raising the error otherwise; "
        "insert<D0,D1,D2> stores the handler at that slot with the static class indices of D in order, subscripting only after resize_container; resize_container never shrinks a level and leaves index[I] < size() on every path; "
        "in every member of basic_dispatcher an iterator from m_callback_map.find() is used only where it was compared with end(); registration assigns (replaces) under make_key<D...>(); keys come from typeid(args)...; "
        "handler wrappers cast args position-wise and append the undispatched ones; a failed visitor cast goes to the configured catch_all policy, a successful one to visit(). accept_impl of a visitable declared with a non-default catch_all (the library's throwing policy, a user policy; const and non-const) reaches on_unknown_visitor of exactly that policy, through whatever helpers. The casting policies return the named static_cast/dynamic_cast of their parameter (no reinterpreting cast). The nested tables of the fast dispatcher are plain vectors: resize(n) gives n elements.",
   note="Run-time class-index state across registration histories is not decided; unrelated leaf classes stand for the dynamic types; trusts the two small interpreters in sa/rules/c17_static.py and c17_fast.py."),
 "C10": dict(level="other", design="4.8",
   technique="symbolic evaluation of every operator / wrapper body over the parts of *this and the operands (two spellings of the same computation evaluate to the same value), truth tables of ==/!= over (real equal, imag equal), polynomial identity of the mul/div formulas in (a,b,c,d), Annex-G idiom rule, closure-kind compile witnesses",
   text="Decides structural clauses only: the 24 elementary-function wrappers call the same-named std function on std::complex<value_type>(x) in order; "
        "==/!= have the truth table of real&&imag equality along every path, unary -/+ negate both parts / return the operand; each binary operator X builds its result from the left operand and applies X= with the right; compound "
        "scalar forms touch exactly the parts complex arithmetic says; member assignments are (real<-real, imag<-imag) symmetric; the textbook and Annex G "
        "mul/div (first attempt, recovery, scaled quotient) compute ac-bd, ad+bc, (ac+bd)/(cc+dd), (bc-ad)/(cc+dd) as polynomials; Annex G boxing idioms "
        "classify the component they box, the divisor scale is logb(max(|c|,|d|)), scalbn exponents agree; all closure-kind combinations compile. A binary operation with at least one IEEE operand yields an IEEE xcomplex in either order (witnesses); the divisor is rescaled whenever its exponent is finite, under no further threshold. The divisor scale of the IEEE division uses the NaN-ignoring fmax. The Annex G mode survives unary operators, conj, operations with a scalar and the elementary functions; xcomplex<CTR> defaults the imaginary closure to CTR. == never compares the object representation (helpers followed).",
   note="Rounding, special-value outcomes and scaling accuracy are numeric and NOT decided; trusts the polynomial evaluator and clang/g++."),
 "C11": dict(level="other", design="4.9",
   technique="sibling-storage pairing rule over every member/constructor pattern of both container families, ==/!= shape, paired-iterator lockstep (symbolic positions), default-initialisation witnesses, contents of the built storages (zeroing flags), reference-parameter-before-reallocation typestate",
   text="Decides the lockstep structure: in each of the ~45 members/constructors of xoptional_sequence/vector/array and xcomplex_sequence/vector/array "
        "every use of the first storage must be mirrored in order by the same operation on the second with the same size/index argument and the "
        "prescribed fill (none->false, plain->true, v.value()->v.has_value(), .real()->.imag()), results are built (first, second); operator== compares "
        "both storages; the paired iterators move/compare both sub-iterators alike; the array variants size both storages in their default constructor "
        "and are not trivially default constructible; make_sequence yields value-initialised / filled storages; a value passed by reference is consumed before the storage it may alias is reallocated; == of the flag bitset covers every block. Forward, const and reverse iteration of all four containers (vector and array variants) instantiates; the block-count and index helpers of the flag bitset are folded exactly. A write through an element proxy takes value and flag from the source unconditionally (C04's constructor/assignment rule, strict).",
   note="Assumes make_sequence and the std containers behave as specified; at()/resize of the flag bitset itself belong to C03."),
 "C12": dict(level="other", design="4.10",
   technique="symbolic-position (polynomial) evaluation of every derived operator and every iterator primitive over the template patterns; ordering truth tables; primitive exhaustiveness; sign-conversion lint on instantiated members",
   text="Decides mutual consistency of the operators: the derived !=,<=,>=,> of both bases are evaluated under the three orderings with == and < as atoms; "
        "it++/it--/it+n/n+it/it-n/it[n] and the size_t extension are executed symbolically (result position, argument untouched, old value returned); "
        "every class built on a base must provide the primitives it derives from; the primitives of xbitset/xoptional/xcomplex/xstepping/xkey/xvalue "
        "iterators must move every position field by exactly +-1/+-n (times the step) on every path, subtract/compare the same fields in the same orientation. begin/end/cbegin/cend/rbegin/rend/crbegin/crend of xdynamic_bitset_base (const and non-const) designate position 0 / size() and reverse_iterator(end) / reverse_iterator(begin) through whatever delegation. No operand of / % >> or an ordering in the instantiated iterator members is an implicit signed-to-unsigned conversion (a - b for a before b stays negative); a range accessor never returns a container-less iterator. The value and the flag storage of the optional containers are used in lockstep (C11's pairing rule, a necessary condition for paired iterator ranges, decided again as C12.pair).",
   note="Traversal visiting exactly the container's elements (begin/end of each container) is covered only for the two sequence families by C11; sub-iterators are assumed lawful."),
 "C07": dict(level="proof", design="4.7",
   technique="generated static_assert / must-compile / must-not-compile witnesses discharged by the compilers, plus designation rules on instantiated xclosure_wrapper<T&> / <T> (what get(), operator& and the constructors designate, helpers followed through their resolved callees) and on the assignment/swap/equality patterns; concrete small-model execution of the bit-reference assignments",
   text="Decides the type/aliasing structure for every value category: ~260 static_asserts on the four mapping traits, the factories, ref-qualified "
        "accessors of xclosure_wrapper/xoptional/xmasked_value/xcomplex (incl. mixed closures), operator& of wrappers and proxies, forward_sequence and "
        "proxy_wrapper; must-compile witnesses with a type that can be neither copied nor moved prove 'without copying it', move-only temporaries prove "
        "ownership; must-not-compile witnesses reject writes through const closures; on the instantiated wrappers an lvalue closure stores &param, get() yields *m_wrappee and operator& m_wrappee, a value closure stores the value, "
        "yields m_wrappee and &m_wrappee; nothing rebinds the stored pointer; assignment, swap and equality act on the referents of both operands. Converting construction/assignment of an owning xoptional from an rvalue reference-closure proxy copies the referent (resolved payload constructor/assignment), and bitset element references write exactly the designated bit from the source (exact folding shared with C03). The bit-reference assignment operators, in any spelling, are executed on concrete models including the case where source and destination are the same bit. Both the const and the mutable bit reference hold the block by reference; real()/imag() of plain numbers and proxy_wrapper of lvalues have their documented value categories.",
   note="Checked with clang++ -std=gnu++17 and g++ -std=gnu++14 (quick) and both compilers x C++14/17/20 (thorough); const rvalue sources may map to a const value; lifetime misuse in user code is out of scope."),
 "C14": dict(level="other", design="4.12",
   technique="call-site/effect lint closed under library helpers, interval check of byte reads, cursor discipline by a linear symbolic step of the block loop (cursor/remaining deltas, load offsets against the guard) and a per-remainder evaluation of the tail, and equality of the dataflow summary (initial value, per-block update, post-loop value per remainder as expression trees, helpers and locals followed) with the reference MurmurHash2/64A; index-form block loops by the division identity L = w*q + r; symbolic-byte execution of the tail loader",
   text="Decides structural necessary conditions: entry points forward (buffer,length,seed) unchanged to the right kernel; std::hash<xbasic_fixed_string> "
        "hashes exactly (data(), size(), constant); no pointer-to-integer conversion, non-local state, foreign callee or wider-pointer block load in the "
        "call graph; every byte read entering arithmetic is zero-extended; in the 32-bit kernel the cursor advances by what the remaining length loses, each block load lies inside the bytes the loop guard guarantees and for every remainder 0..3 the tail reads exactly cursor[0..r-1]; in the 64-bit kernel the loop runs to start + (length & ~7) in steps of 8 with loads inside the block and load_bytes(end, length & 7) runs only under (length & 7) != 0; and the expression trees "
        "of the hash value (initial value, block update, tail and finalisation for every remainder) equal the reference algorithm's (constants, shifts, byte lanes, mix order). Value equality for every input is not decided as such. The masks applied to the length are folded with the conversions clang recorded (a narrower mask that is zero-extended is reported). Block loops may be written with a moving cursor or with a block index (q = length / w; loads at base + w*i inside their block; the tail starts at base + w*q and is driven by length % w in any spelling); load_bytes is executed over symbolic bytes for every tail count. The length std::hash passes on is the one size() decodes for every storage layout and every length 0..N (C01's encoder/decoder rule decided again as C14.len).",
   note="Reference trees are built in sa/rules/c14.py from MurmurHash2.cpp; an index-based block loop or a rewritten load_bytes is reported as analysis-broken (exit 2), never as a violation; x86-64 only."),
 "C20": dict(level="other", design="4.18",
   technique="API-misuse rule for every readlink site of the header (failure test, counted use, length < capacity by linear entailment, scalar locals read through), abstract string evaluation of prefix_path (cut = everything before the last separator), evaluation of endianness() for each value of the probe byte along every path under two include orders and three standards; path-wise linear entailment per readlink call",
   text="Decides structural conditions on the Linux configuration: readlink's result is tested for failure, the path is built from the returned "
        "length (the buffer is never used as a C string unless a terminator byte is reserved), and the building branch implies length < capacity "
        "(so truncation is retried); prefix_path evaluates to cut(cut(executable_path())) + separator in whichever spelling (helpers, npos ?: forms, += / push_back); "
        "endianness() yields big/little/mixed exactly when byte 0 of a whole-object copy of a probe with distinct bytes is its MSB/LSB/anything else, compile-time tests folded to this target. The path obtained from the OS is returned unedited (no erase/resize/replace after it was built). readlink is decided path-wise: every string built from the buffer lies behind len >= 0 and len < capacity of the latest call and takes exactly that length (wrappers and functors that forward to readlink are calls of it); prefix_path is evaluated through helpers that edit or return strings. No path of executable_path returns a string that was given content before the first readlink call.",
   note="What the OS returns for a given install location is outside static reach; only the Linux branch of xsystem.hpp is visible in this sandbox."),
 "C13": dict(level="other", design="4.11",
   technique="type/mask-based interval analysis of table subscripts (const locals read through) + alphabet/sentinel agreement + sentinel-guard dominance in the input loop + accumulator-constant consistency, with locals substituted and comparisons normalised (operand order, negation); bit-provenance dataflow of the alphabet indices of group-wise encoders; exact folding of an alphabet given as a function",
   text="Decides structural necessary conditions only: every subscript of the 256-entry decode table and of the 65-byte alphabet literal has an "
        "index whose interval (from operand types, casts and masks) lies inside the extent; the three alphabet literals equal RFC 4648, the pad is '=', "
        "the table is built as T[alphabet[i]] = i for exactly i=0..63 over a sentinel outside 0..63; the decoder tests that sentinel before a "
        "character contributes; the shift/counter/mask constants of both accumulators are mutually consistent; where the encoder builds characters directly from bytes, every index bit has the RFC 4648 provenance. Round-trip equality is NOT decided. Loop bounds written with sizeof(array) are folded. Encoder, decoder and their helpers keep no mutable static or thread_local local.",
   note="Trusts clang's resolved AST and sa/trange.py; an accumulator of a different shape is reported as analysis-broken, not as a violation."),
 "C16": dict(level="other", design="4.14",
   technique="symbolic linear-arithmetic entailment (guard implies range) over the span class-template pattern with helper members expanded, path-wise entailment for at(), wrap-free-atom lint, mode table from 4 configurations, body-instantiation witnesses under two compilers",
   text="For each of first/last/subspan (static and dynamic), operator[], front, back the TCB_SPAN_EXPECT condition is converted to linear facts "
        "(atoms that add two unbounded unsigned values or subtract unordered ones are rejected and reported) and must entail that the returned "
        "{data()+X, Y} lies in [0,size()] and is exactly the requested sub-range; at() must reject every idx >= size() with out_of_range; begin/end/"
        "size_bytes/empty/reverse iterators and the 8 constructors must have their defining shape; the contract-mode table is read from 4 configurations. A span is constructible from a container only with the container's own element type (cv added); a hand-written copy assignment takes over pointer and count on every path but true self-assignment. The non-member first/last/subspan forward to the member of their own name; make_span views every element of what it is given.",
   note="Symbolic over Extent/Offset/Count/size(); trusts clang's pattern AST and sa/linear.py; assumes size()==Extent for static spans; validity of the caller's own range is outside the check."),
 "C04": dict(level="proof", design="4.4",
   technique="presence abstract interpretation (truth-table evaluation) of every overload body over clang's AST of the template patterns",
   text="Decides the property at the level of the overload bodies: each of the ~240 xoptional/xmasked_value operator, compound-assignment, "
        "comparison, lifted-function, select and value_or bodies (template patterns, so overloads no test instantiates are covered) is evaluated "
        "under all 2^k presence assignments with short-circuit semantics; obligations: presence = conjunction, value = own operation on operand "
        "values in parameter order, no operation touches a missing operand's value, compound-assignment flag/target rules, ==/!= truth table; no function of the optional/masked-value headers has a failure exit (throw, assert without NDEBUG, abort). On instantiations: constructors and assignments carry the source's flag (delegating constructors judged by what they delegate), no optional is converted to its bare value by an implicit user-defined conversion inside the library, and results over mixed scalars have the optional of the common type.",
   note="Trusts the ~400-line evaluator sa/presence.py and clang's pattern AST; assumes the underlying operation on the value types means what its name says; unary operators and == are exempt from non-evaluation as in the statement."),
 "C15": dict(level="proof", design="4.13",
   technique="interval/ordering abstract interpretation of every instantiation over clang's resolved AST + constexpr static_assert witnesses",
   text="Decides the property for all ordered pairs of the 11 builtin integer types: each of the 726 instantiated bodies is evaluated with "
        "operands abstracted to the interval of their type refined by the path's sign tests; a builtin comparison counts only if every implicit or "
        "explicit conversion before it is value-preserving on the path's interval, and every leaf must agree with the mathematical comparison for "
        "each feasible ordering (t<u, t==u, t>u). All values are covered by the abstraction, not sampled. constexpr use is discharged by static_asserts.",
   note="Trusts clang's AST (conversion kinds, resolved callees) on x86-64 LP64 and the ~40-line encoding of integral conversions; extended/128-bit integer types are not instantiated."),
 "C18": dict(level="proof", design="4.16",
   technique="generated static_assert witnesses against independent oracles (Python list operations, decltype of a+b+c, std:: traits), discharged by the compiler",
   text="Every law is a static_assert generated for all type lists up to a bound (quick: length<=3 complete plus samples to 7; thorough: <=5), all "
        "promote_type packs of 1..2 (quick, plus thinned triples) / 1..3 (thorough) over 18 arithmetic types (incl. wchar_t, char16_t, char32_t) and 3 std::complex forms, all truth vectors "
        "up to 3/4 for the logical traits with short-circuit (non-instantiation) witnesses, and hand-derived cv tables; the compiler discharges each on the current headers. Exhaustive within those bounds. identity (the self of a static_if branch) returns its argument in its own value category. if_/eval_if read the condition's ::value whatever its type; count/contains/index_of treat cv-qualified elements as distinct types.",
   note="Trusts clang++ (and g++ in thorough) template instantiation; oracles live in sa/rules/c18.py; lists longer than the bound are not covered."),
 "C19": dict(level="exploration", design="4.17",
   technique="compile matrix + AST ODR lint + link witness + throw/noreturn pairing between exception configurations (static; nothing is executed)",
   text="Decides the property itself over the finite configuration set: every header x {g++, clang++} x standards x {exceptions, -fno-exceptions} "
        "is compiled alone and twice (quick: C++17; thorough: 14/17/20 plus all ordered header pairs); an AST lint, a two-TU link witness and a C++14 link of the class templates instantiated in full decide the "
        "duplicate/undefined-symbol clause; 'error paths terminate' is decided structurally by pairing every throw site with a noreturn call in the "
        "-fno-exceptions AST.",
   note="Trusts g++ 12 / clang++ 14 / GNU ld as arbiters of compiles/links; 'terminates' is read as 'reaches a call to a noreturn function'; MSVC is out of reach."),
}

NA = {
 "C08": "numeric: every clause quantifies over the numeric result for 2^16..2^32 operand values of an integer-arithmetic implementation; no path-shape condition ties to a wrong result, enumerating operands is execution not analysis (DESIGN.md section 5)",
 "C09": "numeric accuracy of math kernels against an extended-precision reference over all inputs; no sound static argument in reach (DESIGN.md section 5)",
}

def main():
    props = [json.loads(l)["id"] for l in open(os.path.join(HERE, "properties.jsonl"))]
    checks = []
    for pid in props:
        c = CHECKS.get(pid)
        if not c:
            continue
        checks.append({
            "property_id": pid,
            "quick_cmd": "./check %s --tier quick" % pid,
            "thorough_cmd": "./check %s --tier thorough" % pid,
            "evidence_file": "/verif/evidence/%s.json" % pid,
            "replay_cmd_template": "./check %s --replay {path}" % pid,
            "engine": "sa",
            "level_claimed": {"category": c["level"], "text": c["text"], "design_ref": "DESIGN.md section " + c["design"]},
            "level_note": c["note"],
            "technique": c["technique"],
        })
    na = []
    for pid in props:
        if pid in CHECKS:
            continue
        na.append({"property_id": pid, "reason": NA[pid]})
    man = {
        "version": 1,
        "setup_cmd": "python3 -m compileall -q sa check >/dev/null 2>&1; mkdir -p evidence/replay; true",
        "hooks": {
            "guard": "XTL_VERIF",
            "enable": "none needed: the checkers read /repo's headers through clang (-I/repo/include); no guarded hook exists in /repo",
            "baseline_off_cmd": "cmake --build /repo/_build -j16 && ctest --test-dir /repo/_build -j8 --timeout 900",
            "source_commits": [],
            "add_only": True,
        },
        "engines": [{
            "name": "sa", "path": "/verif/sa",
            "serves_properties": sorted(CHECKS),
            "kind_free_text": "repository-specific static analysis in Python over clang 14's resolved JSON AST (template patterns and instantiations), "
                              "plus compiler-discharged static_assert / must-(not-)compile witnesses; nothing from /repo is executed",
        }],
        "checks": checks,
        "not_applicable": na,
        "notes": "Exit codes: 0 pass (KNOWN-FINDING lines allowed), 1 VIOLATION, 2 analysis broken (vanished anchor / instance floor / uninterpretable construct). XTL_REPO overrides /repo for self-tests.",
    }
    json.dump(man, open(os.path.join(HERE, "MANIFEST.json"), "w"), indent=1)
    try:
        import jsonschema
        jsonschema.validate(man, json.load(open("/root/.vp/MANIFEST.schema.json")))
        print("MANIFEST.json valid,", len(checks), "checks,", len(na), "not applicable")
    except ImportError:
        print("MANIFEST.json written (jsonschema not importable here)")

if __name__ == "__main__":
    main()
