#!/bin/bash
# usage: tools/try_mutant.sh <dir with patch.diff + meta.json> [tier]  -- applies the patch to a scratch copy of /repo
# (never to /repo itself), runs the property's check against the copy with XTL_REPO, prints the verdict, removes the copy.
D=$1; TIER=${2:-quick}
P=$(python3 -c "import json,sys; print(json.load(open('$D/meta.json'))['property'])")
S=$(mktemp -d /tmp/mutscratch.XXXXXX)
rsync -a --exclude _build --exclude .git --exclude _b /repo/ $S/
if ! (cd $S && git apply --unsafe-paths -p1 --directory=$S $D/patch.diff 2>/dev/null || patch -s -p1 -d $S < $D/patch.diff); then echo "PATCH-FAILED $D"; rm -rf $S; exit 3; fi
cd /verif && VERIF_EVIDENCE_DIR=$S/_ev XTL_REPO=$S ./check $P --tier $TIER > $S/out.txt 2>&1; RC=$?
NV=$(grep -c '^VIOLATION' $S/out.txt)
echo "== $D property=$P exit=$RC violations=$NV"
grep -v '^VIOLATION\|^    rule:' $S/out.txt | cut -c1-240 | head -${LINES_SHOWN:-8}
rm -rf $S
exit $RC
