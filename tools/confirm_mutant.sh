#!/bin/bash
# usage: tools/confirm_mutant.sh <mutant dir> <worktree>   -- independent confirmation of a seeded change:
#   (a) patch applies to clean HEAD, (b) whole test suite builds and passes with it, (c) demo fails with it,
#   (d) demo passes without it.  Writes <dir>/confirm.txt.  The worktree (outside /repo and /verif) is reused.
D=$1; WT=${2:-/tmp/confirm_wt}
if [ ! -d $WT ]; then git -C /repo worktree add -q --detach $WT HEAD || exit 9; fi
cd $WT && git checkout -q -- . && git checkout -q --detach $(git -C /repo rev-parse HEAD) 
[ -d _b ] || cmake -G Ninja -B _b -DBUILD_TESTS=ON -DCMAKE_BUILD_TYPE=RelWithDebInfo -DCMAKE_PREFIX_PATH=/root/miniconda >/dev/null
OUT=$D/confirm.txt; : > $OUT
run_demo() {  # prints exit code
  local work=$(mktemp -d /tmp/demo.XXXXXX) rc
  if [ -f $D/demo.sh ]; then (cd $work && sed "s#/tmp/mutwt_[A-Z0-9]*#$WT#g" $D/demo.sh > demo.sh && timeout 300 bash demo.sh >/dev/null 2>&1); rc=$?
  else
    local flags=$(grep -m1 -o 'g++ [^\n]*' $D/demo.cpp | sed "s#/tmp/mutwt_[A-Z0-9]*#$WT#g" | grep -o '\-[DfOW][^ ]*\|-std=[^ ]*\|-pthread' | tr '\n' ' ')
    (cd $work && g++ ${flags:--std=c++17} -I$WT/include -isystem /root/miniconda/include $D/demo.cpp -o demo 2>/dev/null && timeout 120 ./demo >/dev/null 2>&1); rc=$?
  fi
  rm -rf $work; echo $rc
}
if ! git apply $D/patch.diff 2>>$OUT; then echo "applies=no" >> $OUT; exit 1; fi
echo "applies=yes" >> $OUT
if cmake --build _b -j${JOBS:-8} >/dev/null 2>&1 && ctest --test-dir _b -j8 --timeout 900 >/dev/null 2>&1; then echo "tests_pass_with_patch=yes" >> $OUT; else echo "tests_pass_with_patch=no" >> $OUT; fi
echo "demo_exit_with_patch=$(run_demo)" >> $OUT
git checkout -q -- .
echo "demo_exit_without_patch=$(run_demo)" >> $OUT
cat $OUT | tr '\n' ' '; echo
