#!/usr/bin/env python3
"""floors.json := per rule, 80% of the instance count of the last quick run (evidence/*.json), so that a refactoring which merges a few sites does not
read as a vanished anchor while a rule that stops matching still fails (exit 2).  Tier-specific floors (dicts) are kept and only lowered to 90%."""
import json, glob, os
V = os.path.dirname(os.path.dirname(os.path.abspath(__file__)))
old = json.load(open(os.path.join(V, "floors.json")))
new = {}
# rules whose instances are loops / call sites that a refactoring may legitimately replace by library algorithms
OVERRIDE = {"C03.cover": 0.5, "C02.extent": 0.5, "C11.alias": 0.5, "C02.reads": 0.25, "C01.reads": 0.25, "C03.shift": 0.6, "C03.empty": 0.6, "C01.window": 0.5, "C06.sel": 0.5}
for f in sorted(glob.glob(os.path.join(V, "evidence", "C*.json"))):
    e = json.load(open(f))
    for rid, r in e["coverage"].get("rules", {}).items():
        n = r["instances"]
        if isinstance(old.get(rid), dict):
            new[rid] = {k: min(v, int(0.9 * (n if k == "quick" else v / 0.9))) for k, v in old[rid].items()}
            new[rid]["quick"] = min(old[rid].get("quick", n), int(0.9 * n))
        elif n > 0:
            new[rid] = max(1, int(OVERRIDE.get(rid, 0.7) * n))
json.dump(new, open(os.path.join(V, "floors.json"), "w"), indent=1)
print(len(new), "floors")
