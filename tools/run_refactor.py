#!/usr/bin/env python3
"""Run ALL claimed checks against behaviour-preserving refactorings (dirs with patch.diff) on scratch copies of /repo.
Expected: exit 0 everywhere.  exit 1 = false alarm, exit 2 = analysis broken.   usage: tools/run_refactor.py [<dir> ...]   (default: every directory of /verif/refactor)"""
import json, os, re, shutil, subprocess, sys, tempfile
from concurrent.futures import ThreadPoolExecutor
VERIF = os.path.dirname(os.path.dirname(os.path.abspath(__file__)))
PROPS = [c["property_id"] for c in json.load(open(os.path.join(VERIF, "MANIFEST.json")))["checks"]]
if os.environ.get("REFACTOR_PROPS"):
    # re-run after a rule change: only the checks named here (space separated)
    PROPS = [p for p in PROPS if p in os.environ["REFACTOR_PROPS"].split()]


def one(ddir):
    ddir = os.path.abspath(ddir)
    tmp = tempfile.mkdtemp(prefix="refac.", dir=os.environ.get("TMPDIR", "/tmp"))
    try:
        subprocess.run(["rsync", "-a", "--exclude", "_build", "--exclude", ".git", "--exclude", "_b", "/repo/", tmp + "/"], check=True)
        p = subprocess.run(["patch", "-s", "-p1", "-d", tmp, "-i", os.path.join(ddir, "patch.diff")], stdout=subprocess.PIPE, stderr=subprocess.STDOUT)
        if p.returncode != 0:
            # the tree moved on since the refactoring was written (a later fix: commit): apply the hunks that still fit
            shutil.rmtree(tmp, ignore_errors=True)
            os.makedirs(tmp)
            subprocess.run(["rsync", "-a", "--exclude", "_build", "--exclude", ".git", "--exclude", "_b", "/repo/", tmp + "/"], check=True)
            subprocess.run(["patch", "-s", "-f", "-p1", "--no-backup-if-mismatch", "-r", "-", "-d", tmp, "-i", os.path.join(ddir, "patch.diff")], stdout=subprocess.PIPE, stderr=subprocess.STDOUT)
            ddir = ddir + " (partial)"
        env = dict(os.environ, XTL_REPO=tmp, VERIF_EVIDENCE_DIR=os.path.join(tmp, "_ev"))
        res = {}

        def run(prop):
            r = subprocess.run([os.path.join(VERIF, "check"), prop, "--tier", "quick"], stdout=subprocess.PIPE, stderr=subprocess.STDOUT, env=env, cwd=VERIF)
            out = r.stdout.decode("utf-8", "replace")
            lines = [l for l in out.splitlines() if re.search(r"rule C\d+\.\w+ violated|ANALYSIS-BROKEN", l)]
            return prop, r.returncode, lines[:3]
        with ThreadPoolExecutor(6) as ex:
            for prop, rc, lines in ex.map(run, PROPS):
                if rc != 0:
                    res[prop] = (rc, lines)
        return ddir, "ok", res
    finally:
        shutil.rmtree(tmp, ignore_errors=True)


def main():
    dirs = sys.argv[1:] or sorted(os.path.join(VERIF, "refactor", x) for x in os.listdir(os.path.join(VERIF, "refactor")) if os.path.isfile(os.path.join(VERIF, "refactor", x, "patch.diff")))
    bad = 0
    for d in dirs:
        ddir, st, res = one(d)
        if st != "ok":
            print("%s %s" % (ddir, st)); continue
        if not res:
            print("%s  all %d checks exit 0" % (ddir, len(PROPS)))
        for prop, (rc, lines) in sorted(res.items()):
            bad += 1
            print("%s  %s exit=%d" % (ddir, prop, rc))
            for l in lines:
                print("      " + l[:260])
    print("%d non-zero exits" % bad)


if __name__ == "__main__":
    main()
