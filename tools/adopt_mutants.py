#!/usr/bin/env python3
"""Copy independently confirmed seeded changes from /tmp/mut/<P>/<k> into /verif/seeded/<P>-<k>/."""
import json, os, shutil, sys, glob
for d in sorted(glob.glob('/tmp/mut/C*/[0-9]*')):
    cf = os.path.join(d, 'confirm.txt')
    if not os.path.exists(cf):
        continue
    kv = dict(l.strip().split('=', 1) for l in open(cf) if '=' in l)
    ok = (kv.get('applies') == 'yes' and kv.get('tests_pass_with_patch') == 'yes'
          and kv.get('demo_exit_with_patch') not in (None, '0') and kv.get('demo_exit_without_patch') == '0')
    pid = d.split('/')[-2]; k = d.split('/')[-1]
    dst = '/verif/seeded/%s-%s' % (pid, k)
    if not ok:
        print('NOT CONFIRMED', d, kv); continue
    os.makedirs(dst, exist_ok=True)
    for f in os.listdir(d):
        if f in ('patch.diff', 'demo.cpp', 'demo.sh'):
            shutil.copy(os.path.join(d, f), os.path.join(dst, f))
    meta = json.load(open(os.path.join(d, 'meta.json')))
    meta['origin'] = 'written by an independent sub-agent that saw only the property text and a scratch worktree'
    meta['confirmed_by_me'] = kv
    meta['what_i_ran'] = ('tools/confirm_mutant.sh: git apply on a clean scratch worktree of /repo HEAD; cmake --build + ctest (all 24 test '
                          'executables pass with the patch); demo built against the patched tree exits %s, against the clean tree exits 0'
                          % kv.get('demo_exit_with_patch'))
    json.dump(meta, open(os.path.join(dst, 'meta.json'), 'w'), indent=1)
    print('adopted', dst)
