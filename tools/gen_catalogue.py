#!/usr/bin/env python3
"""Regenerates the two generated sections of DESIGN.md (between the BEGIN/END markers) from evidence/*.json, seeded/*/meta.json,
the last tools/run_seeded.py table (seeded/RESULTS.txt) and selftest/mutants.json."""
import json, os, glob, re
V = os.path.dirname(os.path.dirname(os.path.abspath(__file__)))


def catalogue():
    out = ["| rule | statement | instances on today's tree (quick) |", "|---|---|---|"]
    for f in sorted(glob.glob(os.path.join(V, "evidence", "C*.json"))):
        e = json.load(open(f))
        for rid, r in e["coverage"].get("rules", {}).items():
            out.append("| %s | %s | %d |" % (rid, r["statement"].replace("|", "\\|"), r["instances"]))
    return "\n".join(out)


def matrix():
    res = {}
    p = os.path.join(V, "seeded", "RESULTS.txt")
    if os.path.exists(p):
        for l in open(p):
            m = re.match(r"(C\d+-\d+)\s+(C\d+)\s+(caught|MISSED|analysis-broken \(exit 2\)|\S+)\s*(.*)", l)
            if m:
                res[m.group(1)] = (m.group(3), m.group(4).strip())
    out = ["| seeded change | what it changes | needs, to manifest | verdict | rules that report it |", "|---|---|---|---|---|"]
    for d in sorted(glob.glob(os.path.join(V, "seeded", "C*-*")), key=lambda x: (x.split("/")[-1].split("-")[0], int(x.split("-")[-1]))):
        sid = os.path.basename(d)
        m = json.load(open(os.path.join(d, "meta.json")))
        v, rules = res.get(sid, ("not run", ""))
        out.append("| %s | %s | %s | %s | %s |" % (sid, m.get("summary", "").replace("|", "\\|").replace("\n", " ")[:260], m.get("manifests_when", "").replace("|", "\\|").replace("\n", " ")[:200], v, rules))
    return "\n".join(out)


def selftest():
    ms = json.load(open(os.path.join(V, "selftest", "mutants.json")))
    out = ["| property | entry | expectation | rule | why |", "|---|---|---|---|---|"]
    for m in ms:
        out.append("| %s | %s | %s | %s | %s |" % (m["property"], m["name"], m["expect"], m.get("rule", ""), m.get("why", "").replace("|", "\\|")))
    return "\n".join(out)


def main():
    p = os.path.join(V, "DESIGN.md")
    s = open(p).read()
    for tag, gen in (("CATALOGUE", catalogue), ("SEEDED", matrix), ("SELFTEST", selftest)):
        b, e = "<!-- BEGIN %s -->" % tag, "<!-- END %s -->" % tag
        if b in s and e in s:
            s = s[:s.index(b) + len(b)] + "\n" + gen() + "\n" + s[s.index(e):]
    open(p, "w").write(s)


if __name__ == "__main__":
    main()
