#!/usr/bin/env python3
"""Run every seeded change (seeded/<id>/patch.diff) against its property's check on a scratch copy of /repo; print a
table id / exit code / rules that fired.  Never touches /repo.  usage: tools/run_seeded.py [--tier quick] [ids...]"""
import json, os, re, shutil, subprocess, sys, tempfile
from concurrent.futures import ThreadPoolExecutor
VERIF = os.path.dirname(os.path.dirname(os.path.abspath(__file__)))


def one(sid, tier):
    ddir = os.path.join(VERIF, "seeded", sid)
    prop = json.load(open(os.path.join(ddir, "meta.json")))["property"]
    tmp = tempfile.mkdtemp(prefix="seeded.", dir=os.environ.get("TMPDIR", "/tmp"))
    try:
        subprocess.run(["rsync", "-a", "--exclude", "_build", "--exclude", ".git", "--exclude", "_b", "/repo/", tmp + "/"], check=True)
        p = subprocess.run(["patch", "-s", "-p1", "-d", tmp, "-i", os.path.join(ddir, "patch.diff")], stdout=subprocess.PIPE, stderr=subprocess.STDOUT)
        if p.returncode != 0:
            return sid, prop, "PATCH-FAILED", []
        env = dict(os.environ, XTL_REPO=tmp, VERIF_EVIDENCE_DIR=os.path.join(tmp, "_ev"))
        r = subprocess.run([os.path.join(VERIF, "check"), prop, "--tier", tier], stdout=subprocess.PIPE, stderr=subprocess.STDOUT, env=env, cwd=VERIF)
        out = r.stdout.decode("utf-8", "replace")
        rules = sorted(set(re.findall(r"rule (C\d+\.\w+) violated", out)))
        return sid, prop, r.returncode, rules
    finally:
        shutil.rmtree(tmp, ignore_errors=True)


def main():
    args = sys.argv[1:]
    tier = "quick"
    if "--tier" in args:
        i = args.index("--tier"); tier = args[i + 1]; del args[i:i + 2]
    ids = args or sorted(d for d in os.listdir(os.path.join(VERIF, "seeded")) if os.path.isfile(os.path.join(VERIF, "seeded", d, "patch.diff")))
    with ThreadPoolExecutor(8) as ex:
        res = list(ex.map(lambda s: one(s, tier), ids))
    caught = 0
    for sid, prop, rc, rules in res:
        verdict = "caught" if rc == 1 else ("analysis-broken (exit 2)" if rc == 2 else ("MISSED" if rc == 0 else str(rc)))
        caught += rc == 1
        print("%-7s %-4s %-26s %s" % (sid, prop, verdict, ", ".join(rules)))
    print("%d of %d seeded changes reported as violations" % (caught, len(res)))


if __name__ == "__main__":
    main()
