#!/usr/bin/env python3
"""Merge the outputs of a full pass (tools/run_refactor.py, tools/run_seeded.py, selftest/run.py) with later re-runs restricted to the checks whose rules
changed afterwards, into refactor/RESULTS.txt, seeded/RESULTS.txt and selftest/RESULTS.txt.
usage: tools/merge_results.py <full dir> <delta dir:PROPS> [<delta dir:PROPS> ...]      (a later delta wins for the properties it names)
Each directory holds refactor*.txt, seeded*.txt, selftest*.txt as written by the three tools."""
import glob, os, re, sys
VERIF = os.path.dirname(os.path.dirname(os.path.abspath(__file__)))


def strip(path):
    return re.sub(r"^.*/(refactor|seeded)/", "", path)


def read_refactor(fn):
    """-> {dir: {prop: (rc, [lines])}}, set of dirs seen"""
    res, seen, cur = {}, set(), None
    for l in open(fn, errors="replace"):
        l = l.rstrip("\n")
        m = re.match(r"^(\S+?)( \(partial\))?  (C\d\d) exit=(\d+)", l)
        m0 = re.match(r"^(\S+?)( \(partial\))?  all \d+ checks exit 0", l)
        if m:
            d = strip(m.group(1)) + (m.group(2) or "")
            seen.add(d)
            cur = res.setdefault(d, {}).setdefault(m.group(3), (int(m.group(4)), []))
        elif m0:
            seen.add(strip(m0.group(1)) + (m0.group(2) or ""))
            cur = None
        elif l.startswith("      ") and cur is not None:
            cur[1].append(l)
    return res, seen


def read_lines(fn, pat):
    out = {}
    for l in open(fn, errors="replace"):
        m = re.match(pat, l)
        if m:
            out[m.group(1)] = l.rstrip("\n")
    return out


def first(d, pat):
    fs = sorted(glob.glob(os.path.join(d, pat)))
    return fs[0] if fs else None


def main():
    full = sys.argv[1]
    deltas = []
    for a in sys.argv[2:]:
        d, props = a.split(":")
        deltas.append((d, props.split(",")))
    # ---- refactor
    res, seen = read_refactor(first(full, "refactor*.txt"))
    changed = set()
    for d, props in deltas:
        f = first(d, "*refac*.txt")
        if not f:
            continue
        r2, s2 = read_refactor(f)
        for dd in s2:
            for p in props:
                res.get(dd, {}).pop(p, None)
                if p in r2.get(dd, {}):
                    res.setdefault(dd, {})[p] = r2[dd][p]
        changed |= set(props)
        seen |= s2
    n_checks = 18
    bad = 0
    with open(os.path.join(VERIF, "refactor", "RESULTS.txt"), "w") as o:
        o.write("# all %d checks against each behaviour-preserving refactoring (tools/run_refactor.py); exit 1 = false alarm, exit 2 = analysis broken\n" % n_checks)
        for dd in sorted(seen):
            r = res.get(dd, {})
            if not r:
                o.write("%s  all %d checks exit 0\n" % (dd, n_checks))
            for p in sorted(r):
                bad += 1
                o.write("%s  %s exit=%d\n" % (dd, p, r[p][0]))
                for l in r[p][1]:
                    o.write(l[:260] + "\n")
        o.write("%d non-zero exits over %d refactorings\n" % (bad, len(seen)))
    print("refactor: %d dirs, %d non-zero exits, exit=1: %d" % (len(seen), bad, sum(1 for dd in res for p in res[dd] if res[dd][p][0] == 1)))
    # ---- seeded
    sd = read_lines(first(full, "seeded*.txt"), r"^(C\d\d-\d+)\s")
    for d, props in deltas:
        f = first(d, "*seeded*.txt")
        if f:
            sd.update(read_lines(f, r"^(C\d\d-\d+)\s"))
    key = lambda k: (k.split("-")[0], int(k.split("-")[1]))
    ncaught = sum(1 for v in sd.values() if re.search(r"\scaught\s", v))
    with open(os.path.join(VERIF, "seeded", "RESULTS.txt"), "w") as o:
        for k in sorted(sd, key=key):
            o.write(sd[k] + "\n")
        o.write("%d of %d seeded changes reported as violations\n" % (ncaught, len(sd)))
    print("seeded: %d of %d" % (ncaught, len(sd)))
    # ---- selftest
    st = read_lines(first(full, "selftest*.txt"), r"^(?:OK|FAIL)\s+(C\d\d \S+)")
    for d, props in deltas:
        f = first(d, "*self*.txt")
        if f:
            st.update(read_lines(f, r"^(?:OK|FAIL)\s+(C\d\d \S+)"))
    nfail = sum(1 for v in st.values() if v.startswith("FAIL"))
    with open(os.path.join(VERIF, "selftest", "RESULTS.txt"), "w") as o:
        for k in sorted(st):
            o.write(st[k] + "\n")
        o.write("%d entries, %d not as expected\n" % (len(st), nfail))
    print("selftest: %d entries, %d not as expected" % (len(st), nfail))


if __name__ == "__main__":
    main()
